/-
C13 — serialised dependencies round-trip through HTML text (the parts that are statements about strings):
neutralisation leaves no end-tag opener, the serialised element is `OPEN ++ text ++ CLOSE` with its own closing tag as the
only "</", the lazy-regex extraction recovers exactly that text and removes the element, de-duplication keeps first
occurrences in order, and the placeholder replacement touches the first occurrence only.
-/
import HV.Spec
import HV.Consts
import HV.RenderBase
namespace HV

/-- `<script type="application/json" data-html-dependency="">` -/
def OPENS : Str := [60, 115, 99, 114, 105, 112, 116, 32, 116, 121, 112, 101, 61, 34, 97, 112, 112, 108, 105, 99, 97, 116, 105, 111, 110, 47, 106, 115, 111, 110, 34, 32, 100, 97, 116, 97, 45, 104, 116, 109, 108, 45, 100, 101, 112, 101, 110, 100, 101, 110, 99, 121, 61, 34, 34, 62]
/-- `</script>` -/
def CLOSES : Str := [60, 47, 115, 99, 114, 105, 112, 116, 62]

def slList : StrList → List Str
  | .SNil => []
  | .SCons x r => x :: slList r

/-! ### neutralisation -/

/-- invariant of the scan: the output has no `</`, and it starts with `/` only if the input does -/
theorem neutralAux_inv : ∀ (f : Nat) (s : Str), s.length ≤ f →
    containsStr (replaceAllAux [60, 47] [60, 92, 47] f s) [60, 47] = false ∧
    (∀ r, replaceAllAux [60, 47] [60, 92, 47] f s = 47 :: r → ∃ r', s = 47 :: r') := by
  intro f
  induction f with
  | zero =>
    intro s hs
    have : s = [] := by cases s with
      | nil => rfl
      | cons a b => simp at hs
    subst this
    simp [replaceAllAux, containsStr]
  | succ f ih =>
    intro s hs
    cases s with
    | nil => simp [replaceAllAux, containsStr]
    | cons x xs =>
      simp only [replaceAllAux]
      cases hsp : stripPre [60, 47] (x :: xs) with
      | some rest =>
        have hlen := stripPre_len _ _ _ hsp
        have hr : rest.length ≤ f := by simp at hlen hs; omega
        obtain ⟨ih1, ih2⟩ := ih rest hr
        refine ⟨?_, ?_⟩
        · simp [containsStr, stripPre, ih1]
        · intro r h; simp at h
      | none =>
        have hr : xs.length ≤ f := by simp at hs; omega
        obtain ⟨ih1, ih2⟩ := ih xs hr
        refine ⟨?_, ?_⟩
        · simp only [containsStr, ih1, Bool.or_false]
          cases hout : replaceAllAux [60, 47] [60, 92, 47] f xs with
          | nil => simp [stripPre]
          | cons y ys =>
            by_cases hx : x = 60
            · by_cases hy : y = 47
              · subst hx; subst hy
                obtain ⟨r', hr'⟩ := ih2 ys hout
                subst hr'
                simp [stripPre] at hsp
              · simp [stripPre]
                intro h1 h2; exact absurd h2.symm hy
            · simp [stripPre]
              intro h; exact absurd h.symm hx
        · intro r h
          simp at h
          exact ⟨xs, by rw [h.1]⟩

/-- no end-tag opener `</` survives -/
theorem C13_neutral_no_end_tag (t : Str) : containsStr (neutral t) [60, 47] = false := by
  have := (neutralAux_inv t.length t (Nat.le_refl _)).1
  simpa [neutral, replaceAll] using this

theorem stripPre_append_isSome (p x s : Str) (h : (stripPre (p ++ x) s).isSome = true) : (stripPre p s).isSome = true := by
  induction p generalizing s with
  | nil => simp [stripPre]
  | cons a p ih =>
    cases s with
    | nil => simp [stripPre] at h
    | cons b s =>
      simp only [List.cons_append, stripPre] at h ⊢
      split
      · rename_i hab; simp [hab] at h; exact ih s h
      · rename_i hab; simp [hab] at h

theorem containsStr_of_append (s p x : Str) (h : containsStr s (p ++ x) = true) : containsStr s p = true := by
  induction s with
  | nil => simp [containsStr] at h ⊢; exact h.1
  | cons a s ih =>
    simp only [containsStr, Bool.or_eq_true] at h ⊢
    rcases h with h | h
    · exact Or.inl (stripPre_append_isSome p x _ h)
    · exact Or.inr (ih h)

/-- hence no `</script` in any letter case (nor any other end tag): nothing that starts with `</` occurs -/
theorem C13_no_end_tag_any_case (t x : Str) : containsStr (neutral t) ([60, 47] ++ x) = false := by
  cases h : containsStr (neutral t) ([60, 47] ++ x) with
  | false => rfl
  | true =>
    have := containsStr_of_append _ _ _ h
    rw [C13_neutral_no_end_tag] at this
    exact absurd this (by simp)

/-! ### the serialised element -/

theorem C13_serial_markup (env : Env) (d : DepRec) (i : Int) (eol : Str) :
    rtag realCfg (serialTag realCfg env d i) 0 eol = OPENS ++ serialText realCfg env d i ++ CLOSES := by
  have hno : realCfg.noEsc [115, 99, 114, 105, 112, 116] = true := by decide
  have he1 : realCfg.escA [97, 112, 112, 108, 105, 99, 97, 116, 105, 111, 110, 47, 106, 115, 111, 110]
      = [97, 112, 112, 108, 105, 99, 97, 116, 105, 111, 110, 47, 106, 115, 111, 110] := by decide
  have he2 : realCfg.escA [] = [] := by decide
  rw [serialTag, rtag_el, attrFold_eq]
  simp only [nonMeta, isMeta, tagFrame, hno, attrStr, renderAttr, he1, he2, ind_zero, closeT, OPENS, CLOSES]
  simp

theorem containsStr_mid (pre p post : Str) : containsStr (pre ++ p ++ post) p = true := by
  induction pre with
  | nil =>
    simp only [List.nil_append]
    cases hp : p ++ post with
    | nil =>
      obtain ⟨rfl, rfl⟩ := List.append_eq_nil_iff.mp hp
      simp [containsStr]
    | cons a s =>
      simp only [containsStr]
      rw [← hp, stripPre_append]; rfl
  | cons a pre ih =>
    simp only [List.cons_append, containsStr, Bool.or_eq_true]
    exact Or.inr (by simpa using ih)

/-- if neither `u` nor `v` contains `</`, the only `</` in `u ++ "</" ++ v` is the one in the middle -/
theorem unique_lt_slash (u v : Str) (hv : containsStr v [60, 47] = false) :
    ∀ (pre post : Str), containsStr u [60, 47] = false → u ++ [60, 47] ++ v = pre ++ [60, 47] ++ post → pre = u := by
  induction u with
  | nil =>
    intro pre post _ h
    cases pre with
    | nil => rfl
    | cons a pre =>
      cases pre with
      | nil => simp at h
      | cons b pre =>
        simp at h
        have : containsStr (pre ++ 60 :: 47 :: post) [60, 47] = true := by
          simpa using containsStr_mid pre [60, 47] post
        rw [← h.2.2, hv] at this; simp at this
  | cons c u ih =>
    intro pre post hu h
    simp only [containsStr, Bool.or_eq_false_iff] at hu
    cases pre with
    | nil =>
      simp at h
      obtain ⟨h1, h2⟩ := h
      subst h1
      cases u with
      | nil => simp at h2
      | cons e u =>
        simp at h2
        have := hu.1
        rw [h2.1] at this
        simp [stripPre] at this
    | cons a pre =>
      simp at h
      rw [h.1]
      congr 1
      exact ih pre post hu.2 (by simpa using h.2)

theorem containsStr_append_lt_slash (a b : Str) (ha : containsStr a [60, 47] = false) (hl : ∀ a', a ≠ a' ++ [60])
    (hb : containsStr b [60, 47] = false) : containsStr (a ++ b) [60, 47] = false := by
  induction a with
  | nil => simpa using hb
  | cons c a ih =>
    simp only [containsStr, Bool.or_eq_false_iff] at ha
    have hl' : ∀ a', a ≠ a' ++ [60] := by
      intro a' h; exact hl (c :: a') (by simp [h])
    simp only [List.cons_append, containsStr, Bool.or_eq_false_iff]
    refine ⟨?_, ih ha.2 hl'⟩
    cases a with
    | nil =>
      have hc : c ≠ 60 := by intro h; exact hl [] (by simp [h])
      simp [stripPre]
      intro h; exact absurd h.symm hc
    | cons e a =>
      have := ha.1
      simp [stripPre] at this ⊢
      exact this

/-- the only `</` in the element is its own closing tag -/
theorem C13_only_own_close (env : Env) (d : DepRec) (i : Int) (eol : Str) (pre post : Str)
    (h : rtag realCfg (serialTag realCfg env d i) 0 eol = pre ++ [60, 47] ++ post) :
    pre = OPENS ++ serialText realCfg env d i := by
  rw [C13_serial_markup] at h
  have hO : containsStr OPENS [60, 47] = false := by decide
  have hT : containsStr (serialText realCfg env d i) [60, 47] = false := C13_neutral_no_end_tag _
  have hU : containsStr (OPENS ++ serialText realCfg env d i) [60, 47] = false :=
    containsStr_append_lt_slash _ _ hO (by
      intro a' h'
      have := congrArg List.getLast? h'
      simp [OPENS] at this) hT
  have hV : containsStr [115, 99, 114, 105, 112, 116, 62] [60, 47] = false := by decide
  exact unique_lt_slash _ _ hV pre post hU (by simpa [CLOSES] using h)

/-! ### extraction by the lazy regex -/

theorem splitFirst_of_stripPre (p s r : Str) (h : stripPre p s = some r) : splitFirst s p = some ([], r) := by
  cases s with
  | nil =>
    cases p with
    | nil => simp [stripPre] at h; simp [splitFirst, h]
    | cons a p => simp [stripPre] at h
  | cons x xs => simp [splitFirst, h]

theorem splitFirst_some (p : Str) : ∀ (s a r : Str), splitFirst s p = some (a, r) → s = a ++ p ++ r := by
  intro s
  induction s with
  | nil =>
    intro a r h
    simp only [splitFirst] at h
    split at h
    · rename_i hp; simp at h; simp [hp, h.1, h.2]
    · simp at h
  | cons x xs ih =>
    intro a r h
    simp only [splitFirst] at h
    cases hsp : stripPre p (x :: xs) with
    | some rest =>
      rw [hsp] at h; simp at h
      rw [h.1, ← h.2]
      simpa using stripPre_some _ _ _ hsp
    | none =>
      rw [hsp] at h
      cases hsf : splitFirst xs p with
      | none => rw [hsf] at h; simp at h
      | some q =>
        obtain ⟨a', r'⟩ := q
        rw [hsf] at h; simp at h
        rw [← h.1, ← h.2, ih a' r' hsf]; simp

theorem splitFirst_isSome (p : Str) : ∀ (s : Str), (splitFirst s p).isSome = containsStr s p := by
  intro s
  induction s with
  | nil => simp only [splitFirst, containsStr]; split <;> simp_all
  | cons x xs ih =>
    simp only [splitFirst, containsStr]
    cases hsp : stripPre p (x :: xs) with
    | some rest => simp
    | none => simp [← ih]

theorem splitFirst_none (p s : Str) (h : containsStr s p = false) : splitFirst s p = none := by
  have := splitFirst_isSome p s
  rw [h] at this
  simpa using this

/-- a match of `p` at the start of `a ++ b` lies inside `a` or straddles the boundary -/
theorem stripPre_straddle : ∀ (p a b : Str), (stripPre p (a ++ b)).isSome = true →
    (stripPre p a).isSome = true ∨ ∃ p2, p = a ++ p2 ∧ (stripPre p2 b).isSome = true := by
  intro p
  induction p with
  | nil => intro a b _; left; simp [stripPre]
  | cons q p ih =>
    intro a b h
    cases a with
    | nil => right; exact ⟨q :: p, by simp, by simpa using h⟩
    | cons c a =>
      simp only [List.cons_append, stripPre] at h ⊢
      by_cases hqc : q = c
      · simp only [hqc, if_true] at h ⊢
        rcases ih a b h with h1 | ⟨p2, h2, h3⟩
        · left; exact h1
        · right; exact ⟨p2, by simp [h2], h3⟩
      · simp [hqc] at h

theorem containsStr_suffix (p : Str) (u w : Str) (h : containsStr (u ++ w) p = false) : containsStr w p = false := by
  induction u with
  | nil => simpa using h
  | cons c u ih =>
    simp only [List.cons_append, containsStr, Bool.or_eq_false_iff] at h
    exact ih h.2

theorem stripPre_OPENS_none (c : Nat) (pre x : Str) (h : stripPre OPENS (c :: pre) = none) :
    stripPre OPENS (c :: pre ++ OPENS ++ x) = none := by
  cases hsp : stripPre OPENS (c :: pre ++ OPENS ++ x) with
  | none => rfl
  | some rest =>
    exfalso
    have h0 : (stripPre OPENS ((c :: pre) ++ (OPENS ++ x))).isSome = true := by
      rw [← List.append_assoc, hsp]; rfl
    rcases stripPre_straddle _ _ _ h0 with h1 | ⟨p2, h2, h3⟩
    · rw [h] at h1; simp at h1
    · cases p2 with
      | nil =>
        simp at h2
        rw [h2] at h
        have := stripPre_append (c :: pre) []
        simp only [List.append_nil] at this
        rw [this] at h; simp at h
      | cons e p2 =>
        have he : e = 60 := by
          simp [OPENS, stripPre] at h3
          by_cases he : e = 60
          · exact he
          · simp [he] at h3
        subst he
        have hm : 60 ∈ OPENS.tail := by
          rw [h2]; simp
        exact absurd hm (by decide)

theorem splitFirst_OPENS (pre x : Str) (h1 : containsStr pre OPENS = false) :
    splitFirst (pre ++ OPENS ++ x) OPENS = some (pre, x) := by
  induction pre with
  | nil =>
    apply splitFirst_of_stripPre
    simpa using stripPre_append OPENS x
  | cons c pre ih =>
    simp only [containsStr, Bool.or_eq_false_iff] at h1
    have hn : stripPre OPENS (c :: pre) = none := by
      cases hh : stripPre OPENS (c :: pre) with
      | none => rfl
      | some r => rw [hh] at h1; simp at h1
    have := stripPre_OPENS_none c pre x hn
    simp only [List.cons_append] at this ⊢
    simp only [splitFirst, this, ih h1.2]
    rfl

theorem splitFirst_CLOSES (text post : Str) (h2 : containsStr text [60, 47] = false) :
    splitFirst (text ++ CLOSES ++ post) CLOSES = some (text, post) := by
  induction text with
  | nil =>
    apply splitFirst_of_stripPre
    simpa using stripPre_append CLOSES post
  | cons c text ih =>
    simp only [containsStr, Bool.or_eq_false_iff] at h2
    have hn : stripPre CLOSES (c :: (text ++ CLOSES ++ post)) = none := by
      cases text with
      | nil =>
        simp [CLOSES, stripPre]
      | cons e text =>
        have := h2.1
        simp [stripPre] at this
        simp [CLOSES, stripPre]
        intro hc he; exact absurd he (this hc)
    simp only [List.cons_append]
    simp only [splitFirst, hn, ih h2.2]
    rfl

theorem reFindallLazyAux_fuel (o c : Str) (ho : o ≠ []) : ∀ (f g : Nat) (s : Str), s.length < f → s.length < g →
    reFindallLazyAux o c f s = reFindallLazyAux o c g s := by
  intro f
  induction f with
  | zero => intro g s h; omega
  | succ f ih =>
    intro g s hf hg
    cases g with
    | zero => omega
    | succ g =>
      simp only [reFindallLazyAux]
      cases h1 : splitFirst s o with
      | none => rfl
      | some q =>
        obtain ⟨a, rest⟩ := q
        simp only []
        cases h2 : splitFirst rest c with
        | none => rfl
        | some q2 =>
          obtain ⟨text, post⟩ := q2
          simp only []
          have e1 := splitFirst_some _ _ _ _ h1
          have e2 := splitFirst_some _ _ _ _ h2
          have hol : 0 < o.length := List.length_pos_iff.mpr ho
          have hl : post.length < s.length := by
            rw [e1, e2]; simp; omega
          rw [ih g post (by omega) (by omega)]

theorem reSubLazyAux_fuel (o c : Str) (ho : o ≠ []) : ∀ (f g : Nat) (s : Str), s.length < f → s.length < g →
    reSubLazyAux o c f s = reSubLazyAux o c g s := by
  intro f
  induction f with
  | zero => intro g s h; omega
  | succ f ih =>
    intro g s hf hg
    cases g with
    | zero => omega
    | succ g =>
      simp only [reSubLazyAux]
      cases h1 : splitFirst s o with
      | none => rfl
      | some q =>
        obtain ⟨a, rest⟩ := q
        simp only []
        cases h2 : splitFirst rest c with
        | none => rfl
        | some q2 =>
          obtain ⟨text, post⟩ := q2
          simp only []
          have e1 := splitFirst_some _ _ _ _ h1
          have e2 := splitFirst_some _ _ _ _ h2
          have hol : 0 < o.length := List.length_pos_iff.mpr ho
          have hl : post.length < s.length := by
            rw [e1, e2]; simp; omega
          rw [ih g post (by omega) (by omega)]

theorem OPENS_ne_nil : OPENS ≠ [] := by decide

theorem reFindallLazyAux_step (o c : Str) (f : Nat) (s pre rest text post : Str) (e1 : splitFirst s o = some (pre, rest))
    (e2 : splitFirst rest c = some (text, post)) :
    reFindallLazyAux o c (f + 1) s = .SCons text (reFindallLazyAux o c f post) := by
  simp only [reFindallLazyAux, e1, e2]

theorem reSubLazyAux_step (o c : Str) (f : Nat) (s pre rest text post : Str) (e1 : splitFirst s o = some (pre, rest))
    (e2 : splitFirst rest c = some (text, post)) :
    reSubLazyAux o c (f + 1) s = pre ++ reSubLazyAux o c f post := by
  simp only [reSubLazyAux, e1, e2]

theorem C13_findall_one (pre text post : Str) (h1 : containsStr pre OPENS = false) (h2 : containsStr text [60, 47] = false) :
    reFindallLazy OPENS CLOSES (pre ++ OPENS ++ text ++ CLOSES ++ post) = .SCons text (reFindallLazy OPENS CLOSES post) := by
  have e1 : splitFirst (pre ++ OPENS ++ text ++ CLOSES ++ post) OPENS = some (pre, text ++ CLOSES ++ post) := by
    have := splitFirst_OPENS pre (text ++ CLOSES ++ post) h1
    simpa [List.append_assoc] using this
  have e2 := splitFirst_CLOSES text post h2
  unfold reFindallLazy
  rw [reFindallLazyAux_step _ _ _ _ _ _ _ _ e1 e2]
  congr 1
  apply reFindallLazyAux_fuel _ _ OPENS_ne_nil
  · have : OPENS.length = 56 := rfl
    simp; omega
  · omega

theorem C13_sub_one (pre text post : Str) (h1 : containsStr pre OPENS = false) (h2 : containsStr text [60, 47] = false) :
    reSubLazy OPENS CLOSES (pre ++ OPENS ++ text ++ CLOSES ++ post) = pre ++ reSubLazy OPENS CLOSES post := by
  have e1 : splitFirst (pre ++ OPENS ++ text ++ CLOSES ++ post) OPENS = some (pre, text ++ CLOSES ++ post) := by
    have := splitFirst_OPENS pre (text ++ CLOSES ++ post) h1
    simpa [List.append_assoc] using this
  have e2 := splitFirst_CLOSES text post h2
  unfold reSubLazy
  rw [reSubLazyAux_step _ _ _ _ _ _ _ _ e1 e2]
  congr 1
  apply reSubLazyAux_fuel _ _ OPENS_ne_nil
  · have : OPENS.length = 56 := rfl
    simp; omega
  · omega

theorem C13_extract_none (s : Str) (h : containsStr s OPENS = false) :
    reFindallLazy OPENS CLOSES s = .SNil ∧ reSubLazy OPENS CLOSES s = s := by
  have := splitFirst_none _ _ h
  simp [reFindallLazy, reSubLazy, reFindallLazyAux, reSubLazyAux, this]

/-- a serialised dependency embedded in text is recovered exactly and removed from the text -/
theorem C13_extract_serialised (env : Env) (d : DepRec) (i : Int) (eol : Str) (pre post : Str) (h1 : containsStr pre OPENS = false) :
    reFindallLazy OPENS CLOSES (pre ++ rtag realCfg (serialTag realCfg env d i) 0 eol ++ post)
        = .SCons (serialText realCfg env d i) (reFindallLazy OPENS CLOSES post) ∧
    reSubLazy OPENS CLOSES (pre ++ rtag realCfg (serialTag realCfg env d i) 0 eol ++ post) = pre ++ reSubLazy OPENS CLOSES post := by
  have hT : containsStr (serialText realCfg env d i) [60, 47] = false := C13_neutral_no_end_tag _
  have e : pre ++ rtag realCfg (serialTag realCfg env d i) 0 eol ++ post
      = pre ++ OPENS ++ serialText realCfg env d i ++ CLOSES ++ post := by
    rw [C13_serial_markup]; simp [List.append_assoc]
  rw [e]
  exact ⟨C13_findall_one _ _ _ h1 hT, C13_sub_one _ _ _ h1 hT⟩

/-! ### de-duplication by text -/

theorem slList_ssnoc (l : StrList) (x : Str) : slList (ssnoc l x) = slList l ++ [x] := by
  induction l with
  | SNil => simp [ssnoc, slList]
  | SCons h t ih => simp [ssnoc, slList, ih]

theorem smem_iff (l : StrList) (x : Str) : smem l x = true ↔ x ∈ slList l := by
  induction l with
  | SNil => simp [smem, slList]
  | SCons h t ih =>
    simp only [smem, slList, Bool.or_eq_true, beq_iff_eq, List.mem_cons, ih]
    constructor
    · rintro (h1 | h1)
      · exact Or.inl h1.symm
      · exact Or.inr h1
    · rintro (h1 | h1)
      · exact Or.inl h1.symm
      · exact Or.inr h1

theorem slList_dedupStep (acc : StrList) (x : Str) :
    slList (dedupStep acc x) = (if x ∈ slList acc then slList acc else slList acc ++ [x]) := by
  unfold dedupStep
  by_cases h : x ∈ slList acc
  · simp [h, (smem_iff acc x).mpr h]
  · have : smem acc x = false := by
      cases hh : smem acc x with
      | false => rfl
      | true => exact absurd ((smem_iff acc x).mp hh) h
    simp [h, this, slList_ssnoc]

theorem dedupFold_nodup (l : StrList) : ∀ acc, (slList acc).Nodup → (slList (dedupFold l acc)).Nodup := by
  induction l with
  | SNil => intro acc h; simpa [dedupFold] using h
  | SCons x r ih =>
    intro acc h
    rw [dedupFold]
    apply ih
    rw [slList_dedupStep]
    split
    · exact h
    · rename_i hx
      rw [List.nodup_append]
      refine ⟨h, by simp, ?_⟩
      intro a ha b hb
      simp at hb
      subst hb
      intro hab; subst hab; exact hx ha

theorem dedupFold_mem (l : StrList) (x : Str) : ∀ acc, x ∈ slList (dedupFold l acc) ↔ x ∈ slList acc ∨ x ∈ slList l := by
  induction l with
  | SNil => intro acc; simp [dedupFold, slList]
  | SCons y r ih =>
    intro acc
    rw [dedupFold, ih, slList_dedupStep]
    simp only [slList, List.mem_cons]
    split
    · rename_i hy
      constructor
      · rintro (h | h)
        · exact Or.inl h
        · exact Or.inr (Or.inr h)
      · rintro (h | h | h)
        · exact Or.inl h
        · subst h; exact Or.inl hy
        · exact Or.inr h
    · simp only [List.mem_append, List.mem_singleton]
      constructor
      · rintro ((h | h) | h)
        · exact Or.inl h
        · exact Or.inr (Or.inl h)
        · exact Or.inr (Or.inr h)
      · rintro (h | h | h)
        · exact Or.inl (Or.inl h)
        · exact Or.inl (Or.inr h)
        · exact Or.inr h

theorem dedupFold_sublist (l : StrList) : ∀ acc, ∃ r, slList (dedupFold l acc) = slList acc ++ r ∧ r.Sublist (slList l) := by
  induction l with
  | SNil => intro acc; exact ⟨[], by simp [dedupFold], by simp [slList]⟩
  | SCons x t ih =>
    intro acc
    obtain ⟨r, h1, h2⟩ := ih (dedupStep acc x)
    rw [slList_dedupStep] at h1
    rw [dedupFold, h1]
    simp only [slList]
    split
    · exact ⟨r, rfl, List.Sublist.cons x h2⟩
    · exact ⟨x :: r, by simp, List.Sublist.cons_cons x h2⟩

theorem dedupFold_ssnoc (l : StrList) (x : Str) : ∀ acc, dedupFold (ssnoc l x) acc = dedupStep (dedupFold l acc) x := by
  induction l with
  | SNil => intro acc; simp [ssnoc, dedupFold]
  | SCons h t ih => intro acc; simp only [ssnoc, dedupFold, ih]

theorem C13_dedup_nodup (l : StrList) : (slList (dedupFold l .SNil)).Nodup := by
  apply dedupFold_nodup
  simp [slList]

theorem C13_dedup_mem (l : StrList) (x : Str) : x ∈ slList (dedupFold l .SNil) ↔ x ∈ slList l := by
  rw [dedupFold_mem]; simp [slList]

/-- order of first appearance -/
theorem C13_dedup_order (l : StrList) : (slList (dedupFold l .SNil)).Sublist (slList l) := by
  obtain ⟨r, h1, h2⟩ := dedupFold_sublist l .SNil
  rw [h1]; simpa [slList] using h2

/-- each distinct text is kept at its FIRST appearance: the kept list of `l ++ [x]` extends the kept list of `l` -/
theorem C13_dedup_snoc (l : StrList) (x : Str) :
    slList (dedupFold (ssnoc l x) .SNil) = (if x ∈ slList l then slList (dedupFold l .SNil) else slList (dedupFold l .SNil) ++ [x]) := by
  rw [dedupFold_ssnoc, slList_dedupStep]
  simp only [C13_dedup_mem]

/-! ### placeholder replacement -/

theorem replaceNAux_zero (p r : Str) (f : Nat) (s : Str) : replaceNAux p r f 0 s = s := by
  cases f <;> simp [replaceNAux]

theorem replaceNAux_first (p r : Str) (hp : p ≠ []) : ∀ (s a b : Str) (f : Nat), splitFirst s p = some (a, b) → a.length < f →
    replaceNAux p r f 1 s = a ++ r ++ b := by
  intro s
  induction s with
  | nil => intro a b f h; simp [splitFirst, hp] at h
  | cons x xs ih =>
    intro a b f h hf
    cases f with
    | zero => omega
    | succ f =>
      simp only [splitFirst] at h
      simp only [replaceNAux]
      cases hsp : stripPre p (x :: xs) with
      | some rest =>
        rw [hsp] at h; simp at h
        simp [h.1, ← h.2, replaceNAux_zero]
      | none =>
        rw [hsp] at h
        cases hsf : splitFirst xs p with
        | none => rw [hsf] at h; simp at h
        | some q =>
          obtain ⟨a', b'⟩ := q
          rw [hsf] at h; simp at h
          have hl : a'.length < f := by rw [← h.1] at hf; simp at hf; omega
          simp only []
          rw [ih a' b' f hsf hl, ← h.1, ← h.2]; simp

theorem splitFirst_leftmost (p : Str) : ∀ (a b : Str), (∀ a' b', a ++ p ++ b = a' ++ p ++ b' → a.length ≤ a'.length) →
    splitFirst (a ++ p ++ b) p = some (a, b) := by
  intro a
  induction a with
  | nil =>
    intro b _
    apply splitFirst_of_stripPre
    simpa using stripPre_append p b
  | cons c a ih =>
    intro b hfirst
    have hn : stripPre p (c :: (a ++ p ++ b)) = none := by
      cases hsp : stripPre p (c :: (a ++ p ++ b)) with
      | none => rfl
      | some rest =>
        have := stripPre_some _ _ _ hsp
        have := hfirst [] rest (by simpa using this)
        simp at this
    have ih' := ih b (by
      intro a' b' h
      have := hfirst (c :: a') b' (by simp [List.append_assoc] at h ⊢; exact h)
      simpa using this)
    simp only [List.cons_append]
    simp only [splitFirst, hn, ih']
    rfl

theorem C13_replace_first (a p b r : Str) (hp : p ≠ [])
    (hfirst : ∀ a' b', a ++ p ++ b = a' ++ p ++ b' → a.length ≤ a'.length) :
    replaceN (a ++ p ++ b) p r 1 = a ++ r ++ b := by
  have hs := splitFirst_leftmost p a b hfirst
  have hpl : 0 < p.length := List.length_pos_iff.mpr hp
  simp only [replaceN, hp, if_false]
  have h1 : ¬ ((1 : Int) < 0) := by omega
  simp only [h1, if_false]
  exact replaceNAux_first p r hp _ a b _ hs (by simp; omega)

theorem replaceNAux_absent (p r : Str) : ∀ (s : Str) (f k : Nat), containsStr s p = false → replaceNAux p r f k s = s := by
  intro s
  induction s with
  | nil => intro f k _; cases f <;> cases k <;> simp [replaceNAux]
  | cons x xs ih =>
    intro f k h
    simp only [containsStr, Bool.or_eq_false_iff] at h
    cases f with
    | zero => simp [replaceNAux]
    | succ f =>
      cases k with
      | zero => simp [replaceNAux]
      | succ k =>
        have hn : stripPre p (x :: xs) = none := by
          cases hh : stripPre p (x :: xs) with
          | none => rfl
          | some q => rw [hh] at h; simp at h
        simp only [replaceNAux, hn, ih f (k + 1) h.2]

theorem C13_replace_absent (s p r : Str) (hp : p ≠ []) (h : containsStr s p = false) : replaceN s p r 1 = s := by
  have h1 : ¬ ((1 : Int) < 0) := by omega
  simp only [replaceN, hp, if_false, h1]
  exact replaceNAux_absent p r s _ _ h

/-- HTMLTextDocument.render: only the first occurrence of the placeholder changes, everything else is untouched -/
theorem C13_textdoc_first_only (env : Env) (a p b : Str) (ds : DepList) (lp : OptStr) (iv : Bool) (hp : p ≠ [])
    (hfirst : ∀ a' b', a ++ p ++ b = a' ++ p ++ b' → a.length ≤ a'.length) :
    textDocHtml realCfg env (a ++ p ++ b) p ds lp iv = a ++ rlistTop realCfg (tagifyL env (headExtra env ds lp iv)) 0 [10] true true ++ b := by
  unfold textDocHtml
  exact C13_replace_first a p b _ hp hfirst

/-- the reconstructed dependencies follow the kept texts (used as an imported lemma by the extraction loop) -/
theorem depsOfTexts_ssnoc (env : Env) (l : StrList) (x : Str) :
    depsOfTexts env (ssnoc l x) = rsnoc (depsOfTexts env l) (env.depOfText x) := by
  induction l with
  | SNil => simp [ssnoc, depsOfTexts, rsnoc]
  | SCons h t ih => simp [ssnoc, depsOfTexts, rsnoc, ih]

#print axioms C13_neutral_no_end_tag
#print axioms C13_serial_markup
#print axioms C13_only_own_close
#print axioms C13_extract_serialised
#print axioms C13_dedup_snoc
#print axioms C13_replace_first
end HV
