/-
C09 — tagifiable objects render as their expansion, spliced in place;  C08 — tagify is a fixed point and
the identity on trees that need no expansion.  Statements fixed; proofs to be supplied.
`expand`, `expandObj`, `tagifyL`, `tagifyT`, `tagifiedT`, `tagifiedL`, `renderL`, `renderT`, `depsOf`, `collectL`
are generated L1 specs (HV.Spec); `Env` holds the user callbacks `tagifyOf`, `hasTagify` (assumption A5).
-/
import HV.RenderBase
namespace HV

/-! ### soundness of the backward in-place splice loop (the rule the VC generator applies to TagList.tagify) -/
def spliceAt {α} (l : List α) (i : Nat) (r : List α) : List α := l.take i ++ r ++ l.drop (i + 1)
/-- `for i in reversed(range(n)): l[i:i+1] = repl(l[i])` -/
def spliceLoop {α} (repl : α → List α) : Nat → List α → List α
  | 0, l => l
  | i + 1, l => match l[i]? with
    | some c => spliceLoop repl i (spliceAt l i (repl c))
    | none => spliceLoop repl i l

theorem spliceLoop_spec {α} (repl : α → List α) : ∀ (k : Nat) (l : List α), k ≤ l.length →
    spliceLoop repl k l = (l.take k).flatMap repl ++ l.drop k
  | 0, l, _ => by simp [spliceLoop]
  | k+1, l, hk => by
    have hk' : k < l.length := by omega
    have hlen : (l.take k).length = k := by simp [List.length_take]; omega
    have hget : l[k]? = some l[k] := List.getElem?_eq_getElem hk'
    have ih := spliceLoop_spec repl k (spliceAt l k (repl l[k])) (by
      simp [spliceAt, List.length_take]; omega)
    rw [spliceLoop, hget]
    simp only []
    rw [ih]
    have htake : (spliceAt l k (repl l[k])).take k = l.take k := by
      simp only [spliceAt, List.append_assoc]
      rw [List.take_append_of_le_length (by omega)]
      rw [List.take_of_length_le (by omega)]
    have hdrop : (spliceAt l k (repl l[k])).drop k = repl l[k] ++ l.drop (k+1) := by
      simp only [spliceAt, List.append_assoc]
      rw [List.drop_append_of_le_length (by omega)]
      rw [List.drop_of_length_le (by omega)]; simp
    rw [htake, hdrop]
    have hk1 : l.take (k+1) = l.take k ++ [l[k]] := by
      rw [List.take_add_one]; simp [hget]
    rw [hk1, List.flatMap_append]
    simp

theorem spliceLoop_all {α} (repl : α → List α) (l : List α) : spliceLoop repl l.length l = l.flatMap repl := by
  have := spliceLoop_spec repl l.length l (Nat.le_refl _)
  simpa using this

/-! ### equation lemmas for the generated mutual blocks -/
theorem expand_el (env : Env) (n ws a kids) :
    expand env (.El n ws a kids) = .NCons (.El n ws a (tagifyL env kids)) .NNil := by rw [expand]
theorem expand_ob (env : Env) (o) : expand env (.Ob o) = expandObj env o := by rw [expand]
theorem expand_rp (env : Env) (s o) :
    expand env (.Rp s o) = (if env.hasTagify o then expandObj env o else .NCons (.Rp s o) .NNil) := by rw [expand]
theorem expand_txt (env : Env) (s) : expand env (.Txt s) = .NCons (.Txt s) .NNil := by
  rw [expand] <;> (intros; contradiction)
theorem expand_raw (env : Env) (s) : expand env (.Raw s) = .NCons (.Raw s) .NNil := by
  rw [expand] <;> (intros; contradiction)
theorem expand_md (env : Env) (d) : expand env (.Md d) = .NCons (.Md d) .NNil := by
  rw [expand] <;> (intros; contradiction)
theorem tagifyL_nil (env : Env) : tagifyL env .NNil = .NNil := by rw [tagifyL]
theorem tagifyL_cons (env : Env) (c r) :
    tagifyL env (.NCons c r) = nappend (expand env c) (tagifyL env r) := by rw [tagifyL]

theorem tagifiedT_el (env : Env) (n ws a kids) : tagifiedT env (.El n ws a kids) = tagifiedL env kids := by
  rw [tagifiedT]
theorem tagifiedT_ob (env : Env) (o) : tagifiedT env (.Ob o) = false := by rw [tagifiedT]
theorem tagifiedT_rp (env : Env) (s o) : tagifiedT env (.Rp s o) = !env.hasTagify o := by rw [tagifiedT]
theorem tagifiedT_txt (env : Env) (s) : tagifiedT env (.Txt s) = true := by
  rw [tagifiedT] <;> (intros; contradiction)
theorem tagifiedT_raw (env : Env) (s) : tagifiedT env (.Raw s) = true := by
  rw [tagifiedT] <;> (intros; contradiction)
theorem tagifiedT_md (env : Env) (d) : tagifiedT env (.Md d) = true := by
  rw [tagifiedT] <;> (intros; contradiction)
theorem tagifiedL_nil (env : Env) : tagifiedL env .NNil = true := by rw [tagifiedL]
theorem tagifiedL_cons (env : Env) (c r) :
    tagifiedL env (.NCons c r) = (tagifiedT env c && tagifiedL env r) := by rw [tagifiedL]

theorem c9_hasObT_el (n ws a kids) :
    hasObT (.El n ws a kids) = (generalPath (nonMeta kids) && hasObL kids) := by rw [hasObT]
theorem c9_hasObT_txt (s) : hasObT (.Txt s) = false := by rw [hasObT]; intros; contradiction
theorem c9_hasObT_raw (s) : hasObT (.Raw s) = false := by rw [hasObT]; intros; contradiction
theorem c9_hasObT_md (d) : hasObT (.Md d) = false := by rw [hasObT]; intros; contradiction
theorem c9_hasObT_rp (s o) : hasObT (.Rp s o) = false := by rw [hasObT]; intros; contradiction
theorem c9_hasObT_ob (o) : hasObT (.Ob o) = false := by rw [hasObT]; intros; contradiction
theorem c9_hasObL_nil : hasObL .NNil = false := by rw [hasObL]
theorem c9_hasObL_cons (c r) : hasObL (.NCons c r) = (isOb c || hasObT c || hasObL r) := by rw [hasObL]

theorem nappend_nil_left (b : NodeList) : nappend .NNil b = b := by rw [nappend]
theorem nappend_cons (c : Node) (r b : NodeList) : nappend (.NCons c r) b = .NCons c (nappend r b) := by
  rw [nappend]
theorem nappend_nil_right : (a : NodeList) → nappend a .NNil = a
  | .NNil => by rw [nappend_nil_left]
  | .NCons c r => by rw [nappend_cons, nappend_nil_right r]

def nlToList : NodeList → List Node
  | .NNil => []
  | .NCons c r => c :: nlToList r

theorem nlToList_nappend : (a b : NodeList) → nlToList (nappend a b) = nlToList a ++ nlToList b
  | .NNil, b => by simp [nappend_nil_left, nlToList]
  | .NCons c r, b => by simp [nappend_cons, nlToList, nlToList_nappend r b]

theorem tagifyL_flatMap (env : Env) (l : NodeList) :
    nlToList (tagifyL env l) = (nlToList l).flatMap (fun c => nlToList (expand env c)) :=
  match l with
  | .NNil => by simp [tagifyL_nil, nlToList]
  | .NCons c r => by
    simp [tagifyL_cons, nlToList, nlToList_nappend, tagifyL_flatMap env r]

/-! ### splicing -/
theorem nappend_assoc' (a b c : NodeList) : nappend (nappend a b) c = nappend a (nappend b c) :=
  match a with
  | .NNil => by simp only [nappend_nil_left]
  | .NCons x r => by simp only [nappend_cons, nappend_assoc' r b c]
theorem tagifyL_append (env : Env) (a b : NodeList) : tagifyL env (nappend a b) = nappend (tagifyL env a) (tagifyL env b) :=
  match a with
  | .NNil => by simp only [nappend_nil_left, tagifyL_nil]
  | .NCons x r => by
    simp only [nappend_cons, tagifyL_cons, tagifyL_append env r b, nappend_assoc']
/-- each child is replaced in place by its expansion, the order of everything else is kept -/
theorem C09_splice_in_place (env : Env) (l1 l2 : NodeList) (c : Node) :
    tagifyL env (nappend l1 (.NCons c l2)) = nappend (tagifyL env l1) (nappend (expand env c) (tagifyL env l2)) := by
  rw [tagifyL_append, tagifyL_cons]
/-- a returned TagList is spliced in (possibly empty), any other result takes the object's place -/
theorem C09_expand_list (env : Env) (o : Int) (l : NodeList) (h : env.tagifyOf o = .TgList l) : expand env (.Ob o) = l := by
  rw [expand_ob, expandObj, h]
theorem C09_expand_node (env : Env) (o : Int) (n : Node) (h : env.tagifyOf o = .TgNode n) : expand env (.Ob o) = .NCons n .NNil := by
  rw [expand_ob, expandObj, h]
theorem C09_expand_plain (env : Env) (s : Str) : expand env (.Txt s) = .NCons (.Txt s) .NNil ∧ expand env (.Raw s) = .NCons (.Raw s) .NNil :=
  ⟨expand_txt env s, expand_raw env s⟩
theorem C09_expand_tag (env : Env) (n : Str) (ws : Bool) (a : AttrList) (kids : NodeList) :
    expand env (.El n ws a kids) = .NCons (.El n ws a (tagifyL env kids)) .NNil := expand_el env n ws a kids

/-! ### fully tagified results (A5: what a user tagify() returns is already fully tagified) -/
def tagifiedR (env : Env) : TgRes → Bool
  | .TgList l => tagifiedL env l
  | .TgNode n => tagifiedT env n
def wfEnv (env : Env) : Prop := ∀ o, tagifiedR env (env.tagifyOf o) = true

theorem tagifiedL_nappend (env : Env) : (a b : NodeList) →
    tagifiedL env (nappend a b) = (tagifiedL env a && tagifiedL env b)
  | .NNil, b => by simp [nappend_nil_left, tagifiedL_nil]
  | .NCons c r, b => by simp [nappend_cons, tagifiedL_cons, tagifiedL_nappend env r b, Bool.and_assoc]

theorem tagifiedL_expandObj (env : Env) (h : wfEnv env) (o : Int) : tagifiedL env (expandObj env o) = true := by
  have ho := h o
  unfold expandObj
  cases hr : env.tagifyOf o with
  | TgList l => rw [hr] at ho; simpa [tagifiedR] using ho
  | TgNode n =>
    rw [hr] at ho
    simp only [tagifiedR] at ho
    simp [tagifiedL_cons, tagifiedL_nil, ho]

mutual
/-- C08: the tree returned by tagify equals the original when nothing needed expansion -/
theorem C08_tagify_id_T (env : Env) : (t : Node) → tagifiedT env t = true → tagifyT env t = t
  | .Txt s, _ => by simp [tagifyT]
  | .Raw s, _ => by simp [tagifyT]
  | .Md d, _ => by simp [tagifyT]
  | .Rp s o, _ => by simp [tagifyT]
  | .Ob o, _ => by simp [tagifyT]
  | .El n ws a kids, h => by
    rw [tagifiedT_el] at h
    simp only [tagifyT]
    rw [C08_tagify_id_L env kids h]
theorem C08_tagify_id_L (env : Env) : (l : NodeList) → tagifiedL env l = true → tagifyL env l = l
  | .NNil, _ => tagifyL_nil env
  | .NCons c r, h => by
    rw [tagifiedL_cons, Bool.and_eq_true] at h
    have ihr := C08_tagify_id_L env r h.2
    rw [tagifyL_cons, ihr]
    have hc := h.1
    match c, hc with
    | .Txt s, _ => rw [expand_txt, nappend_cons, nappend_nil_left]
    | .Raw s, _ => rw [expand_raw, nappend_cons, nappend_nil_left]
    | .Md d, _ => rw [expand_md, nappend_cons, nappend_nil_left]
    | .Rp s o, hc =>
      rw [tagifiedT_rp] at hc
      have : env.hasTagify o = false := by simpa using hc
      rw [expand_rp, this]; simp only [Bool.false_eq_true, if_false]
      rw [nappend_cons, nappend_nil_left]
    | .Ob o, hc => rw [tagifiedT_ob] at hc; contradiction
    | .El n ws a kids, hc =>
      rw [tagifiedT_el] at hc
      rw [expand_el, C08_tagify_id_L env kids hc, nappend_cons, nappend_nil_left]
end

theorem isEl_eq (t : Node) (h : isEl t = true) : ∃ n ws a kids, t = .El n ws a kids := by
  cases t <;> simp_all [isEl]

mutual
-- STATEMENT CHANGED: the original `(t : Node) → tagifiedT env (tagifyT env t) = true` is FALSE: `tagifyT` is
-- the identity on non-elements, so for `t = .Ob 0` (or `.Rp s o` with `env.hasTagify o = true`) and the
-- well-formed `env := ⟨fun _ => .TgList .NNil, fun _ => true⟩` we get
-- `tagifiedT env (tagifyT env (.Ob 0)) = tagifiedT env (.Ob 0) = false`.
-- (`Tag.tagify` is a method of Tag, i.e. only ever applied to `.El` nodes.)  Corrected by the weakest
-- precondition: `t` is an element or is already tagified (see also `C09_tagified_after_T_iff` below).
theorem C09_tagified_after_T (env : Env) (h : wfEnv env) :
    (t : Node) → (isEl t || tagifiedT env t) = true → tagifiedT env (tagifyT env t) = true
  | .Txt s, _ => by simp [tagifyT, tagifiedT_txt]
  | .Raw s, _ => by simp [tagifyT, tagifiedT_raw]
  | .Md d, _ => by simp [tagifyT, tagifiedT_md]
  | .Rp s o, ht => by simpa [tagifyT, isEl] using ht
  | .Ob o, ht => by simpa [tagifyT, isEl] using ht
  | .El n ws a kids, _ => by
    simp only [tagifyT]
    rw [tagifiedT_el]
    exact C09_tagified_after_L env h kids
theorem C09_tagified_after_L (env : Env) (h : wfEnv env) : (l : NodeList) → tagifiedL env (tagifyL env l) = true
  | .NNil => by rw [tagifyL_nil, tagifiedL_nil]
  | .NCons c r => by
    have ihr := C09_tagified_after_L env h r
    rw [tagifyL_cons, tagifiedL_nappend, ihr, Bool.and_true]
    match c with
    | .Txt s => simp [expand_txt, tagifiedL_cons, tagifiedL_nil, tagifiedT_txt]
    | .Raw s => simp [expand_raw, tagifiedL_cons, tagifiedL_nil, tagifiedT_raw]
    | .Md d => simp [expand_md, tagifiedL_cons, tagifiedL_nil, tagifiedT_md]
    | .Ob o => rw [expand_ob]; exact tagifiedL_expandObj env h o
    | .Rp s o =>
      rw [expand_rp]
      cases ht : env.hasTagify o with
      | true => simp only [if_true]; exact tagifiedL_expandObj env h o
      | false => simp [tagifiedL_cons, tagifiedL_nil, tagifiedT_rp, ht]
    | .El n ws a kids =>
      rw [expand_el, tagifiedL_cons, tagifiedL_nil, Bool.and_true, tagifiedT_el]
      exact C09_tagified_after_L env h kids
end

/-- the element case of the corrected statement (the only way `Tag.tagify` is used) -/
theorem C09_tagified_after_T_el (env : Env) (h : wfEnv env) (n : Str) (ws : Bool) (a : AttrList) (kids : NodeList) :
    tagifiedT env (tagifyT env (.El n ws a kids)) = true :=
  C09_tagified_after_T env h _ (by simp [isEl])

/-- the precondition of the corrected `C09_tagified_after_T` is exact -/
theorem C09_tagified_after_T_iff (env : Env) (h : wfEnv env) (t : Node) :
    tagifiedT env (tagifyT env t) = true ↔ (isEl t || tagifiedT env t) = true := by
  constructor
  · intro ht
    cases t <;> simp_all [tagifyT, isEl]
  · exact C09_tagified_after_T env h t

/-- C08: tagify is a fixed point -/
theorem C08_tagify_fixed_point (env : Env) (h : wfEnv env) (l : NodeList) : tagifyL env (tagifyL env l) = tagifyL env l :=
  C08_tagify_id_L env _ (C09_tagified_after_L env h l)

/-! ### rendering -/
mutual
/-- no un-expanded object is left after tagify, so asking for markup does not raise -/
theorem C09_no_ob_T (env : Env) : (t : Node) → tagifiedT env t = true → hasObT t = false
  | .Txt s, _ => c9_hasObT_txt s
  | .Raw s, _ => c9_hasObT_raw s
  | .Md d, _ => c9_hasObT_md d
  | .Rp s o, _ => c9_hasObT_rp s o
  | .Ob o, _ => c9_hasObT_ob o
  | .El n ws a kids, h => by
    rw [tagifiedT_el] at h
    rw [c9_hasObT_el, C09_no_ob_L env kids h, Bool.and_false]
theorem C09_no_ob_L (env : Env) : (l : NodeList) → tagifiedL env l = true → hasObL l = false
  | .NNil, _ => c9_hasObL_nil
  | .NCons c r, h => by
    rw [tagifiedL_cons, Bool.and_eq_true] at h
    have ihr := C09_no_ob_L env r h.2
    have ihc := C09_no_ob_T env c h.1
    rw [c9_hasObL_cons, ihr, ihc]
    have hc := h.1
    cases c <;> simp_all [isOb, tagifiedT_ob]
end
theorem C09_render_no_raise (env : Env) (h : wfEnv env) (l : NodeList) : hasObL (tagifyL env l) = false :=
  C09_no_ob_L env _ (C09_tagified_after_L env h l)
/-- asking for markup from a list that still contains an un-expanded object raises -/
theorem C09_raises_unexpanded (o : Int) (l1 l2 : NodeList) : hasObL (nappend l1 (.NCons (.Ob o) l2)) = true :=
  match l1 with
  | .NNil => by simp [nappend_nil_left, c9_hasObL_cons, isOb]
  | .NCons c r => by simp [nappend_cons, c9_hasObL_cons, C09_raises_unexpanded o r l2]
/-- render() produces exactly what the tree with every object replaced by its expansion produces -/
theorem C09_render_subst (cfg : Cfg) (env : Env) (h : wfEnv env) (l : NodeList) :
    renderL cfg env (tagifyL env l) = renderL cfg env l := by
  unfold renderL
  rw [C08_tagify_fixed_point env h l]

#print axioms spliceLoop_all
#print axioms tagifyL_flatMap
#print axioms C09_splice_in_place
#print axioms C08_tagify_id_T
#print axioms C08_tagify_id_L
#print axioms C09_tagified_after_T
#print axioms C09_tagified_after_L
#print axioms C08_tagify_fixed_point
#print axioms C09_no_ob_T
#print axioms C09_render_no_raise
#print axioms C09_raises_unexpanded
#print axioms C09_render_subst

end HV
