/-
C01 — rendered markup parses back to the same element tree.
Statements fixed; proofs to be supplied.  The reference tokenizer below is the data / tag-open / tag-name /
double-quoted-attribute / self-closing / end-tag fragment of HTML tokenization (case preserving, no raw-text
states).  `rtag`, `rlist`, `tagFrame`, `rl_step`, `attrStr`, `nonMeta` … are the generated renderer spec (HV.Spec).
-/
import HV.RenderBase
import HV.EscFacts
import HV.Consts
import HV.C02
import HV.C03
namespace HV

inductive Tok where
  | text : Str → Tok
  | opn : Str → List (Str × Str) → Tok      -- <name k="v" ...>
  | void : Str → List (Str × Str) → Tok     -- <name k="v" .../>
  | close : Str → Tok                        -- </name>
  | err : Tok
deriving DecidableEq, Repr

/-- longest prefix whose elements satisfy p, and the rest -/
def spanP (p : Nat → Bool) : Str → Str × Str
  | [] => ([], [])
  | x :: xs => if p x then ((x :: (spanP p xs).1), (spanP p xs).2) else ([], x :: xs)

def nameCh (x : Nat) : Bool := x != 32 && x != 62 && x != 47     -- tag-name state ends at space, '>' or '/'
def akeyCh (x : Nat) : Bool := x != 61                             -- attribute name ends at '='
def avalCh (x : Nat) : Bool := x != 34                             -- double-quoted value ends at '"'
def textCh (x : Nat) : Bool := x != 60                             -- data state ends at '<'
def closeCh (x : Nat) : Bool := x != 62

/-- attributes: (" " key "=\"" value "\"")*  -/
def lexAttrs : Nat → Str → List (Str × Str) × Str
  | 0, s => ([], s)
  | f+1, 32 :: r =>
    let k := (spanP akeyCh r).1
    match (spanP akeyCh r).2 with
    | 61 :: 34 :: r2 =>
      let v := (spanP avalCh r2).1
      match (spanP avalCh r2).2 with
      | 34 :: r4 => ((k, v) :: (lexAttrs f r4).1, (lexAttrs f r4).2)
      | _ => ([], 32 :: r)
    | _ => ([], 32 :: r)
  | _, s => ([], s)

def lexOpen (nm : Str) (as : List (Str × Str)) (r2 : Str) (k : Str → List Tok) : List Tok :=
  match r2 with
  | 47 :: 62 :: r3 => .void nm as :: k r3
  | 62 :: r3 => .opn nm as :: k r3
  | _ => [.err]

def lexClose (nm : Str) (r : Str) (k : Str → List Tok) : List Tok :=
  match r with
  | 62 :: r' => .close nm :: k r'
  | _ => [.err]

/-- the reference tokenizer (fuel = input length suffices) -/
def lexF : Nat → Str → List Tok
  | 0, _ => []
  | _, [] => []
  | f+1, x :: xs =>
    if x = 60 then
      if xs.head? = some 47 then
        lexClose (spanP closeCh xs.tail).1 (spanP closeCh xs.tail).2 (lexF f)
      else
        lexOpen (spanP nameCh xs).1 (lexAttrs f (spanP nameCh xs).2).1 (lexAttrs f (spanP nameCh xs).2).2 (lexF f)
    else .text (spanP textCh (x :: xs)).1 :: lexF f (spanP textCh (x :: xs)).2

def lex (s : Str) : List Tok := lexF s.length s

/-! ### what the tree says: its elements in document order, attributes in insertion order, text leaves -/
def attrPairs : AttrList → List (Str × Str)
  | .ANil => []
  | .ACons k (.Plain s) tl => (k, s) :: attrPairs tl
  | .ACons k (.RawV s) tl => (k, s) :: attrPairs tl

mutual
def events (cfg : Cfg) : Node → List Tok
  | .El n _ a kids =>
      match nonMeta kids with
      | .NNil => if cfg.isVoid n then [.void n (attrPairs a)] else [.opn n (attrPairs a), .close n]
      | _ => [.opn n (attrPairs a)] ++ eventsL cfg kids ++ [.close n]
  | .Txt s => [.text s]
  | _ => []
def eventsL (cfg : Cfg) : NodeList → List Tok
  | .NNil => []
  | .NCons c r => events cfg c ++ eventsL cfg r
end

/-! ### ordinary elements -/
def wfName (n : Str) : Prop := (∃ y n', n = y :: n' ∧ y ≠ 47) ∧ ∀ x ∈ n, nameCh x = true
def wfKey (k : Str) : Prop := ∀ x ∈ k, x ≠ 61
def plainAttrs : AttrList → Prop
  | .ANil => True
  | .ACons k (.Plain _) tl => wfKey k ∧ plainAttrs tl
  | .ACons _ (.RawV _) _ => False
mutual
/-- a tree of ordinary elements: valid names, plain attribute values, text leaves (numbers are stored as text, C14),
no script/style (their content is not escaped), no metadata / HTML() / objects -/
def ordinary (cfg : Cfg) : Node → Prop
  | .El n _ a kids => wfName n ∧ cfg.noEsc n = false ∧ plainAttrs a ∧ ordinaryL cfg kids
  | .Txt _ => True
  | _ => False
def ordinaryL (cfg : Cfg) : NodeList → Prop
  | .NNil => True
  | .NCons c r => ordinary cfg c ∧ ordinaryL cfg r
end

/-! ### comparison up to decoding and whitespace at the ends of text runs -/
/-- HTML whitespace as it can occur in the layout: the characters of `eol` and the space -/
def isLayoutWs (eol : Str) (c : Nat) : Bool := c == 32 || eol.contains c
def trimL (p : Nat → Bool) : Str → Str
  | [] => []
  | x :: xs => if p x then trimL p xs else x :: xs
def trim (p : Nat → Bool) (s : Str) : Str := (trimL p (trimL p s).reverse).reverse

/-- merge adjacent text tokens -/
def mergeText : List Tok → List Tok
  | .text a :: .text b :: r => mergeText (.text (a ++ b) :: r)
  | t :: r => t :: mergeText r
  | [] => []
termination_by l => l.length

def mapText (f : Str → Str) : List Tok → List Tok
  | [] => []
  | .text s :: r => .text (f s) :: mapText f r
  | t :: r => t :: mapText f r
def mapAttrVals (f : Str → Str) : List Tok → List Tok
  | [] => []
  | .opn n as :: r => .opn n (as.map (fun kv => (kv.1, f kv.2))) :: mapAttrVals f r
  | .void n as :: r => .void n (as.map (fun kv => (kv.1, f kv.2))) :: mapAttrVals f r
  | t :: r => t :: mapAttrVals f r
def dropEmptyText : List Tok → List Tok
  | [] => []
  | .text [] :: r => dropEmptyText r
  | t :: r => t :: dropEmptyText r

/-- canonical form of a token stream: adjacent text merged, then each text run trimmed at both ends, empty runs dropped -/
def canon (ws : Nat → Bool) (ts : List Tok) : List Tok := dropEmptyText (mapText (trim ws) (mergeText ts))

/-! ## Part 1 — the tokenizer round trip (ported from probes/C01_tokenizer_roundtrip.lean) -/

theorem spanP_stop (p : Nat → Bool) (a : Str) (c : Nat) (b : Str) (ha : ∀ x ∈ a, p x = true) (hc : p c = false) :
    spanP p (a ++ c :: b) = (a, c :: b) := by
  induction a with
  | nil => simp [spanP, hc]
  | cons x xs ih =>
    have hx : p x = true := ha x (by simp)
    have := ih (fun y hy => ha y (by simp [hy]))
    simp [spanP, hx, this]

theorem spanP_len (p : Nat → Bool) (s : Str) : (spanP p s).2.length ≤ s.length := by
  induction s with
  | nil => simp [spanP]
  | cons x xs ih => simp only [spanP]; split <;> simp <;> omega

theorem spanP_all (p : Nat → Bool) (a : Str) (ha : ∀ x ∈ a, p x = true) : spanP p a = (a, []) := by
  induction a with
  | nil => simp [spanP]
  | cons x xs ih =>
    have hx : p x = true := ha x (by simp)
    have := ih (fun y hy => ha y (by simp [hy]))
    simp [spanP, hx, this]

/-- the attribute part of a tag, on key/value pairs (the probe's `attrStr`) -/
def pairStr : List (Str × Str) → Str
  | [] => []
  | (k, v) :: r => [32] ++ k ++ [61, 34] ++ v ++ [34] ++ pairStr r

def tokStr : Tok → Str
  | .text t => t
  | .opn n as => [60] ++ n ++ pairStr as ++ [62]
  | .void n as => [60] ++ n ++ pairStr as ++ [47, 62]
  | .close n => [60, 47] ++ n ++ [62]
  | .err => []

def flatten : List Tok → Str
  | [] => []
  | t :: r => tokStr t ++ flatten r

def wfAttr (kv : Str × Str) : Prop := (∀ x ∈ kv.1, x ≠ 61) ∧ (∀ x ∈ kv.2, x ≠ 34)

def wfTok : Tok → Prop
  | .text t => t ≠ [] ∧ ∀ x ∈ t, x ≠ 60
  | .opn n as => wfName n ∧ ∀ kv ∈ as, wfAttr kv
  | .void n as => wfName n ∧ ∀ kv ∈ as, wfAttr kv
  | .close n => ∀ x ∈ n, x ≠ 62
  | .err => False

def isText : Tok → Bool | .text _ => true | _ => false

def noAdj : List Tok → Prop
  | [] => True
  | [_] => True
  | a :: b :: r => (isText a = true → isText b = false) ∧ noAdj (b :: r)

theorem lexAttrs_ok : (as : List (Str × Str)) → (∀ kv ∈ as, wfAttr kv) → (f : Nat) → as.length ≤ f →
    (rest : Str) → (∀ r, rest ≠ 32 :: r) → lexAttrs f (pairStr as ++ rest) = (as, rest)
  | [], _, f, _, rest, hr => by
    cases f with
    | zero => simp [lexAttrs, pairStr]
    | succ f =>
      simp only [pairStr, List.nil_append]
      cases rest with
      | nil => simp [lexAttrs]
      | cons x xs =>
        by_cases hx : x = 32
        · exact absurd (by rw [hx]) (hr xs)
        · unfold lexAttrs; split <;> simp_all
  | (k, v) :: as, hw, f, hf, rest, hr => by
    cases f with
    | zero => simp at hf
    | succ f =>
      have hkv := hw (k, v) (by simp)
      have ih := lexAttrs_ok as (fun kv h => hw kv (by simp [h])) f (by simp at hf; omega) rest hr
      have hk : spanP akeyCh (k ++ 61 :: (34 :: (v ++ 34 :: (pairStr as ++ rest)))) = (k, 61 :: (34 :: (v ++ 34 :: (pairStr as ++ rest)))) :=
        spanP_stop akeyCh k 61 _ (fun x hx => by simp [akeyCh, hkv.1 x hx]) (by simp [akeyCh])
      have hv : spanP avalCh (v ++ 34 :: (pairStr as ++ rest)) = (v, 34 :: (pairStr as ++ rest)) :=
        spanP_stop avalCh v 34 _ (fun x hx => by simp [avalCh, hkv.2 x hx]) (by simp [avalCh])
      simp only [pairStr, List.append_assoc, List.cons_append, List.nil_append, lexAttrs, hk, hv, ih]

theorem tokStr_nontext_head (t : Tok) (hw : wfTok t) (ht : isText t = false) : ∃ s, tokStr t = 60 :: s := by
  cases t with
  | text _ => simp [isText] at ht
  | opn n as => exact ⟨n ++ pairStr as ++ [62], by simp [tokStr]⟩
  | void n as => exact ⟨n ++ pairStr as ++ [47, 62], by simp [tokStr]⟩
  | close n => exact ⟨47 :: n ++ [62], by simp [tokStr]⟩
  | err => exact absurd hw (by simp [wfTok])

theorem tokStr_len_pos (t : Tok) (hw : wfTok t) : 0 < (tokStr t).length := by
  cases t with
  | text s => cases s with
    | nil => simp [wfTok] at hw
    | cons _ _ => simp [tokStr]
  | opn n as => simp [tokStr]
  | void n as => simp [tokStr]
  | close n => simp [tokStr]
  | err => exact absurd hw (by simp [wfTok])

/-- what follows a text token is either the end or a '<' -/
theorem after_text (r : List Tok) (hw : ∀ t ∈ r, wfTok t) (h : ∀ b r', r = b :: r' → isText b = false) :
    flatten r = [] ∨ ∃ s, flatten r = 60 :: s := by
  cases r with
  | nil => left; simp [flatten]
  | cons b r' =>
    right
    obtain ⟨s, hs⟩ := tokStr_nontext_head b (hw b (by simp)) (h b r' rfl)
    exact ⟨s ++ flatten r', by simp [flatten, hs]⟩

theorem lexF_text (f : Nat) (x : Nat) (xs : Str) (hx : x ≠ 60) :
    lexF (f+1) (x :: xs) = .text (spanP textCh (x :: xs)).1 :: lexF f (spanP textCh (x :: xs)).2 := by
  rw [lexF]; simp [hx]

theorem lexF_close (f : Nat) (rest : Str) :
    lexF (f+1) (60 :: 47 :: rest) = lexClose (spanP closeCh rest).1 (spanP closeCh rest).2 (lexF f) := by
  rw [lexF]; simp

theorem lexF_open (f : Nat) (y : Nat) (rest : Str) (hy : y ≠ 47) :
    lexF (f+1) (60 :: y :: rest) =
      lexOpen (spanP nameCh (y :: rest)).1 (lexAttrs f (spanP nameCh (y :: rest)).2).1
        (lexAttrs f (spanP nameCh (y :: rest)).2).2 (lexF f) := by
  rw [lexF]; simp [hy]

theorem nameCh_stop32 : nameCh 32 = false := by decide
theorem nameCh_stop62 : nameCh 62 = false := by decide
theorem nameCh_stop47 : nameCh 47 = false := by decide

/-- after the tag name comes a space (attributes), '>' or '/' -/
theorem span_name (n : Str) (as : List (Str × Str)) (tail : Str) (c : Nat) (hn : ∀ x ∈ n, nameCh x = true)
    (hc : nameCh c = false) :
    spanP nameCh (n ++ (pairStr as ++ c :: tail)) = (n, pairStr as ++ c :: tail) := by
  cases as with
  | nil => simpa [pairStr] using spanP_stop nameCh n c tail hn hc
  | cons kv as =>
    obtain ⟨k, v⟩ := kv
    have := spanP_stop nameCh n 32 (k ++ [61, 34] ++ v ++ [34] ++ pairStr as ++ c :: tail) hn nameCh_stop32
    simpa [pairStr, List.append_assoc] using this

theorem pairStr_len : (as : List (Str × Str)) → as.length ≤ (pairStr as).length
  | [] => by simp
  | (k, v) :: as => by have := pairStr_len as; simp [pairStr]; omega

/-- one step of the tokenizer on a well-formed non-text token -/
theorem lexF_tag (t : Tok) (hwt : wfTok t) (ht : isText t = false) (rest : Str) (f : Nat)
    (hf : (tokStr t).length ≤ f + 1) : lexF (f+1) (tokStr t ++ rest) = t :: lexF f rest := by
  cases t with
  | err => exact absurd hwt (by simp [wfTok])
  | text s => simp [isText] at ht
  | close n =>
    have hsp : spanP closeCh (n ++ 62 :: rest) = (n, 62 :: rest) :=
      spanP_stop closeCh n 62 _ (fun x hx => by simp [closeCh, hwt x hx]) (by simp [closeCh])
    simp only [tokStr, List.cons_append, List.nil_append, List.append_assoc]
    rw [lexF_close, hsp]; simp [lexClose]
  | opn n as =>
    obtain ⟨⟨⟨y, n', hn, hy⟩, hnc⟩, hwa⟩ := hwt
    have hsp := span_name n as rest 62 hnc nameCh_stop62
    have hla := lexAttrs_ok as hwa f (by
        simp only [tokStr, List.length_append, List.length_cons] at hf
        have := pairStr_len as
        subst hn
        simp only [List.length_cons] at hf
        omega) (62 :: rest) (by simp)
    simp only [tokStr, List.cons_append, List.nil_append, List.append_assoc] at hsp ⊢
    subst hn
    simp only [List.cons_append] at hsp ⊢
    rw [lexF_open f y _ hy, hsp]; simp only []
    rw [hla]; simp [lexOpen]
  | void n as =>
    obtain ⟨⟨⟨y, n', hn, hy⟩, hnc⟩, hwa⟩ := hwt
    have hsp := span_name n as (62 :: rest) 47 hnc nameCh_stop47
    have hla := lexAttrs_ok as hwa f (by
        simp only [tokStr, List.length_append, List.length_cons] at hf
        have := pairStr_len as
        subst hn
        simp only [List.length_cons] at hf
        omega) (47 :: 62 :: rest) (by simp)
    simp only [tokStr, List.cons_append, List.nil_append, List.append_assoc] at hsp ⊢
    subst hn
    simp only [List.cons_append] at hsp ⊢
    rw [lexF_open f y _ hy, hsp]; simp only []
    rw [hla]; simp [lexOpen]

/-- the tokenizer round trip: a stream of well-formed tokens with no two adjacent text tokens -/
theorem lex_flatten : (ts : List Tok) → (∀ t ∈ ts, wfTok t) → noAdj ts →
    (f : Nat) → (flatten ts).length ≤ f → lexF f (flatten ts) = ts
  | [], _, _, f, _ => by cases f <;> simp [flatten, lexF]
  | t :: r, hw, hadj, f, hf => by
    have hwt := hw t (by simp)
    have hwr : ∀ t ∈ r, wfTok t := fun t h => hw t (by simp [h])
    have hadjr : noAdj r := by
      cases r with
      | nil => simp [noAdj]
      | cons b r' => exact hadj.2
    have hpos := tokStr_len_pos t hwt
    simp only [flatten, List.length_append] at hf
    cases f with
    | zero => omega
    | succ f =>
      have ih := lex_flatten r hwr hadjr f (by omega)
      cases htx : isText t with
      | false =>
        simp only [flatten]
        rw [lexF_tag t hwt htx (flatten r) f (by omega), ih]
      | true =>
        cases t with
        | text s =>
          obtain ⟨hne, hs⟩ := hwt
          cases s with
          | nil => exact absurd rfl hne
          | cons x xs =>
            have hx : x ≠ 60 := hs x (by simp)
            have hafter := after_text r hwr (fun b r' hr => by
              subst hr
              cases hb : isText b with
              | false => rfl
              | true => have := hadj.1 rfl; simp [hb] at this)
            have hsp : spanP textCh ((x :: xs) ++ flatten r) = (x :: xs, flatten r) := by
              cases hafter with
              | inl h0 => rw [h0, List.append_nil]; exact spanP_all textCh _ (fun y hy => by simp [textCh, hs y hy])
              | inr h1 =>
                obtain ⟨s', hs'⟩ := h1
                rw [hs']; exact spanP_stop textCh _ 60 s' (fun y hy => by simp [textCh, hs y hy]) (by simp [textCh])
            simp only [flatten, tokStr]
            simp only [List.cons_append] at hsp ⊢
            rw [lexF_text f x _ hx, hsp]; simp [ih]
        | opn n as => simp [isText] at htx
        | void n as => simp [isText] at htx
        | close n => simp [isText] at htx
        | err => simp [isText] at htx

/-! ### the round trip with merging: adjacent text pieces (possibly empty) are read as one text token -/

/-- like `wfTok`, but text pieces may be empty -/
def wfPiece : Tok → Prop
  | .text t => ∀ x ∈ t, x ≠ 60
  | t => wfTok t

def emitN (acc : Str) : List Tok := if acc = [] then [] else [.text acc]

/-- the token stream with adjacent text pieces merged into `acc` and empty text dropped -/
def normAcc : Str → List Tok → List Tok
  | acc, [] => emitN acc
  | acc, .text s :: r => normAcc (acc ++ s) r
  | acc, .opn n as :: r => emitN acc ++ .opn n as :: normAcc [] r
  | acc, .void n as :: r => emitN acc ++ .void n as :: normAcc [] r
  | acc, .close n :: r => emitN acc ++ .close n :: normAcc [] r
  | acc, .err :: r => emitN acc ++ .err :: normAcc [] r

theorem normAcc_nontext (acc : Str) (t : Tok) (r : List Tok) (ht : isText t = false) :
    normAcc acc (t :: r) = emitN acc ++ t :: normAcc [] r := by
  cases t <;> first | rfl | simp [isText] at ht

theorem wfPiece_nontext (t : Tok) (h : wfPiece t) (ht : isText t = false) : wfTok t := by
  cases t <;> first | exact h | simp [isText] at ht

theorem lexF_nil (f : Nat) : lexF f [] = [] := by cases f <;> simp [lexF]

/-- a nonempty pending text run followed by the end or by '<' is read as one text token -/
theorem lexF_run (x : Nat) (xs : Str) (ha : ∀ y ∈ x :: xs, y ≠ 60) (rest : Str) (hr : rest = [] ∨ ∃ s, rest = 60 :: s) (f : Nat) :
    lexF (f + 1) ((x :: xs) ++ rest) = .text (x :: xs) :: lexF f rest := by
  have hx : x ≠ 60 := ha x (by simp)
  have hsp : spanP textCh ((x :: xs) ++ rest) = (x :: xs, rest) := by
    cases hr with
    | inl h0 => rw [h0, List.append_nil]; exact spanP_all textCh _ (fun y hy => by simp [textCh, ha y hy])
    | inr h1 =>
      obtain ⟨s', hs'⟩ := h1
      rw [hs']; exact spanP_stop textCh _ 60 s' (fun y hy => by simp [textCh, ha y hy]) (by simp [textCh])
  simp only [List.cons_append] at hsp ⊢
  rw [lexF_text f x _ hx, hsp]

theorem lex_norm : (ts : List Tok) → (∀ t ∈ ts, wfPiece t) → (a : Str) → (∀ x ∈ a, x ≠ 60) →
    (f : Nat) → (a ++ flatten ts).length ≤ f → lexF f (a ++ flatten ts) = normAcc a ts
  | [], _, a, ha, f, hf => by
    simp only [flatten, List.append_nil, normAcc] at hf ⊢
    cases a with
    | nil => simp [lexF_nil, emitN]
    | cons x xs =>
      cases f with
      | zero => simp at hf
      | succ f =>
        have := lexF_run x xs ha [] (Or.inl rfl) f
        simp only [List.append_nil] at this
        rw [this, lexF_nil]; simp [emitN]
  | t :: r, hw, a, ha, f, hf => by
    have hwt := hw t (by simp)
    have hwr : ∀ t ∈ r, wfPiece t := fun t h => hw t (by simp [h])
    cases htx : isText t with
    | true =>
      cases t with
      | text s =>
        have ih := lex_norm r hwr (a ++ s) (by
          intro x hx
          rcases List.mem_append.mp hx with h | h
          · exact ha x h
          · exact hwt x h) f (by simpa [flatten, tokStr, List.append_assoc] using hf)
        simp only [flatten, tokStr, normAcc]
        rw [← List.append_assoc]; exact ih
      | opn n as => simp [isText] at htx
      | void n as => simp [isText] at htx
      | close n => simp [isText] at htx
      | err => simp [isText] at htx
    | false =>
      have hwt' := wfPiece_nontext t hwt htx
      obtain ⟨s', hs'⟩ := tokStr_nontext_head t hwt' htx
      have hpos := tokStr_len_pos t hwt'
      rw [normAcc_nontext a t r htx]
      simp only [flatten, List.length_append] at hf
      have step : ∀ g, (tokStr t).length + (flatten r).length ≤ g →
          lexF g (tokStr t ++ flatten r) = t :: normAcc [] r := by
        intro g hg
        cases g with
        | zero => omega
        | succ g =>
          rw [lexF_tag t hwt' htx (flatten r) g (by omega)]
          have ih := lex_norm r hwr [] (by simp) g (by simp; omega)
          simp only [List.nil_append] at ih
          rw [ih]
      cases a with
      | nil => simp only [List.nil_append, emitN, flatten]; simpa using step f (by simpa using hf)
      | cons x xs =>
        cases f with
        | zero => simp at hf
        | succ f =>
          simp only [flatten]
          rw [lexF_run x xs ha (tokStr t ++ flatten r) (Or.inr ⟨s' ++ flatten r, by simp [hs']⟩) f]
          rw [step f (by simp only [List.length_cons] at hf; omega)]
          simp [emitN]

/-! ## Part 2 — the canonical form, computed left to right with a pending text run -/

def allP (p : Nat → Bool) (w : Str) : Prop := ∀ c ∈ w, p c = true

theorem allP_nil (p : Nat → Bool) : allP p [] := by intro c h; simp at h
theorem allP_append (p : Nat → Bool) (a b : Str) (ha : allP p a) (hb : allP p b) : allP p (a ++ b) := by
  intro c h
  rcases List.mem_append.mp h with h | h
  · exact ha c h
  · exact hb c h
theorem allP_reverse (p : Nat → Bool) (a : Str) (ha : allP p a) : allP p a.reverse := by
  intro c h; exact ha c (List.mem_reverse.mp h)

theorem trimL_all (p : Nat → Bool) (w s : Str) (hw : allP p w) : trimL p (w ++ s) = trimL p s := by
  induction w with
  | nil => rfl
  | cons x xs ih =>
    have hx : p x = true := hw x (by simp)
    simp only [List.cons_append, trimL, hx, if_true]
    exact ih (fun c h => hw c (by simp [h]))

theorem trimL_all_nil (p : Nat → Bool) (w : Str) (hw : allP p w) : trimL p w = [] := by
  have := trimL_all p w [] hw
  simpa [trimL] using this

theorem allP_of_trimL_nil (p : Nat → Bool) (a : Str) (h : trimL p a = []) : allP p a := by
  induction a with
  | nil => exact allP_nil p
  | cons x xs ih =>
    simp only [trimL] at h
    by_cases hx : p x = true
    · simp only [hx, if_true] at h
      intro c hc
      rcases List.mem_cons.mp hc with rfl | hc
      · exact hx
      · exact ih h c hc
    · simp [hx] at h

theorem trimL_append_ne (p : Nat → Bool) (a s : Str) (h : trimL p a ≠ []) : trimL p (a ++ s) = trimL p a ++ s := by
  induction a with
  | nil => simp [trimL] at h
  | cons x xs ih =>
    simp only [List.cons_append, trimL] at h ⊢
    by_cases hx : p x = true
    · simp only [hx, if_true] at h ⊢; exact ih h
    · simp [hx]

/-- pending runs are compared up to leading whitespace -/
theorem trimL_congr (p : Nat → Bool) (a1 a2 s : Str) (h : trimL p a1 = trimL p a2) :
    trimL p (a1 ++ s) = trimL p (a2 ++ s) := by
  by_cases h1 : trimL p a1 = []
  · have h2 : trimL p a2 = [] := by rw [← h]; exact h1
    rw [trimL_all p a1 s (allP_of_trimL_nil p a1 h1), trimL_all p a2 s (allP_of_trimL_nil p a2 h2)]
  · have h2 : trimL p a2 ≠ [] := by rw [← h]; exact h1
    rw [trimL_append_ne p a1 s h1, trimL_append_ne p a2 s h2, h]

theorem trim_congr (p : Nat → Bool) (a1 a2 : Str) (h : trimL p a1 = trimL p a2) : trim p a1 = trim p a2 := by
  simp only [trim, h]

theorem trim_append_all (p : Nat → Bool) (a w : Str) (hw : allP p w) : trim p (a ++ w) = trim p a := by
  by_cases h1 : trimL p a = []
  · have ha := allP_of_trimL_nil p a h1
    simp only [trim, trimL_all_nil p _ (allP_append p a w ha hw), h1]
  · simp only [trim, trimL_append_ne p a w h1, List.reverse_append]
    rw [trimL_all p w.reverse _ (allP_reverse p w hw)]

theorem trim_nil (p : Nat → Bool) : trim p [] = [] := by simp [trim, trimL]

def emit (ws : Nat → Bool) (acc : Str) : List Tok := if trim ws acc = [] then [] else [.text (trim ws acc)]

/-- `canon`, computed left to right; `acc` is the text run read so far -/
def canonAcc (ws : Nat → Bool) : Str → List Tok → List Tok
  | acc, [] => emit ws acc
  | acc, .text s :: r => canonAcc ws (acc ++ s) r
  | acc, .opn n as :: r => emit ws acc ++ .opn n as :: canonAcc ws [] r
  | acc, .void n as :: r => emit ws acc ++ .void n as :: canonAcc ws [] r
  | acc, .close n :: r => emit ws acc ++ .close n :: canonAcc ws [] r
  | acc, .err :: r => emit ws acc ++ .err :: canonAcc ws [] r

theorem canonAcc_nontext (ws : Nat → Bool) (acc : Str) (t : Tok) (r : List Tok) (ht : isText t = false) :
    canonAcc ws acc (t :: r) = emit ws acc ++ t :: canonAcc ws [] r := by
  cases t <;> first | rfl | simp [isText] at ht

theorem canonAcc_text (ws : Nat → Bool) (acc s : Str) (r : List Tok) :
    canonAcc ws acc (.text s :: r) = canonAcc ws (acc ++ s) r := rfl

theorem emit_nil (ws : Nat → Bool) : emit ws [] = [] := by simp [emit, trim_nil]

theorem emit_congr (ws : Nat → Bool) (a1 a2 : Str) (h : trimL ws a1 = trimL ws a2) : emit ws a1 = emit ws a2 := by
  simp only [emit, trim_congr ws a1 a2 h]

theorem emit_append_all (ws : Nat → Bool) (a w : Str) (hw : allP ws w) : emit ws (a ++ w) = emit ws a := by
  simp only [emit, trim_append_all ws a w hw]

theorem mergeText_nontext (t : Tok) (r : List Tok) (ht : isText t = false) : mergeText (t :: r) = t :: mergeText r := by
  rw [mergeText]
  intro a b r' h; subst h; simp [isText] at ht

theorem mergeText_text_nil (a : Str) : mergeText [.text a] = [.text a] := by
  rw [mergeText]
  · simp [mergeText]
  · intro a' b r' _ h; simp at h

theorem mergeText_text_nontext (a : Str) (t : Tok) (r : List Tok) (ht : isText t = false) :
    mergeText (.text a :: t :: r) = .text a :: t :: mergeText r := by
  rw [mergeText, mergeText_nontext t r ht]
  intro a' b r' _ h
  simp only [List.cons.injEq] at h
  obtain ⟨h, _⟩ := h; subst h; simp [isText] at ht

theorem mapText_nontext (f : Str → Str) (t : Tok) (r : List Tok) (ht : isText t = false) :
    mapText f (t :: r) = t :: mapText f r := by
  cases t <;> first | rfl | simp [isText] at ht

theorem dropEmptyText_nontext (t : Tok) (r : List Tok) (ht : isText t = false) :
    dropEmptyText (t :: r) = t :: dropEmptyText r := by
  cases t <;> first | rfl | simp [isText] at ht

theorem dropEmptyText_text (s : Str) (r : List Tok) :
    dropEmptyText (.text s :: r) = (if s = [] then [] else [.text s]) ++ dropEmptyText r := by
  cases s <;> simp [dropEmptyText]

theorem canon_eq_canonAcc (ws : Nat → Bool) : (ts : List Tok) →
    (∀ a, canon ws (.text a :: ts) = canonAcc ws a ts) ∧ canon ws ts = canonAcc ws [] ts
  | [] => by
    constructor
    · intro a
      simp only [canon, canonAcc, emit]
      rw [mergeText_text_nil]
      simp only [mapText, dropEmptyText_text, dropEmptyText, List.append_nil]
    · simp [canon, mergeText, mapText, dropEmptyText, canonAcc, emit_nil]
  | t :: r => by
    have ih := canon_eq_canonAcc ws r
    cases htx : isText t with
    | true =>
      cases t with
      | text b =>
        have h1 : ∀ a, canon ws (.text a :: .text b :: r) = canonAcc ws a (.text b :: r) := by
          intro a
          simp only [canon]
          rw [mergeText]
          exact ih.1 (a ++ b)
        exact ⟨h1, by rw [ih.1 b]; simp [canonAcc]⟩
      | opn n as => simp [isText] at htx
      | void n as => simp [isText] at htx
      | close n => simp [isText] at htx
      | err => simp [isText] at htx
    | false =>
      have h2 : canon ws (t :: r) = t :: canon ws r := by
        simp only [canon]
        rw [mergeText_nontext t r htx, mapText_nontext _ t _ htx, dropEmptyText_nontext t _ htx]
      constructor
      · intro a
        rw [canonAcc_nontext ws a t r htx, ← ih.2]
        simp only [canon]
        rw [mergeText_text_nontext a t r htx]
        simp only [mapText]
        rw [mapText_nontext _ t _ htx, dropEmptyText_text, dropEmptyText_nontext t _ htx]
        rfl
      · rw [h2, canonAcc_nontext ws [] t r htx, emit_nil, ih.2]; rfl

theorem canon_eq (ws : Nat → Bool) (ts : List Tok) : canon ws ts = canonAcc ws [] ts := (canon_eq_canonAcc ws ts).2

/-- merging and dropping empty text does not change the canonical form -/
theorem canonAcc_normAcc (ws : Nat → Bool) : (ts : List Tok) → (a b : Str) →
    canonAcc ws b (normAcc a ts) = canonAcc ws (b ++ a) ts
  | [], a, b => by
    simp only [normAcc, emitN]
    split
    · rename_i h; subst h; simp
    · simp [canonAcc]
  | t :: r, a, b => by
    cases htx : isText t with
    | true =>
      cases t with
      | text s =>
        simp only [normAcc, canonAcc_text]
        rw [canonAcc_normAcc ws r (a ++ s) b, List.append_assoc]
      | opn n as => simp [isText] at htx
      | void n as => simp [isText] at htx
      | close n => simp [isText] at htx
      | err => simp [isText] at htx
    | false =>
      rw [normAcc_nontext a t r htx, canonAcc_nontext ws (b ++ a) t r htx]
      have ih := canonAcc_normAcc ws r [] []
      simp only [List.append_nil] at ih
      simp only [emitN]
      split
      · rename_i h; subst h
        simp only [List.nil_append, List.append_nil]
        rw [canonAcc_nontext ws b t _ htx, ih]
      · simp only [List.cons_append, List.nil_append, canonAcc_text]
        rw [canonAcc_nontext ws (b ++ a) t _ htx, ih]

/-! ## Part 3 — escaping / decoding of token streams -/

def encTok (cfg : Cfg) : Tok → Tok
  | .text s => .text (cfg.escT s)
  | .opn n as => .opn n (as.map (fun kv => (kv.1, cfg.escA kv.2)))
  | .void n as => .void n (as.map (fun kv => (kv.1, cfg.escA kv.2)))
  | .close n => .close n
  | .err => .err

def enc (cfg : Cfg) (ts : List Tok) : List Tok := ts.map (encTok cfg)

theorem enc_nil (cfg : Cfg) : enc cfg [] = [] := rfl
theorem enc_cons (cfg : Cfg) (t : Tok) (r : List Tok) : enc cfg (t :: r) = encTok cfg t :: enc cfg r := rfl
theorem enc_append (cfg : Cfg) (a b : List Tok) : enc cfg (a ++ b) = enc cfg a ++ enc cfg b := by simp [enc]

theorem flatten_append (a b : List Tok) : flatten (a ++ b) = flatten a ++ flatten b := by
  induction a with
  | nil => rfl
  | cons t r ih => simp [flatten, ih, List.append_assoc]

/-- what the source-level twin of the renderer may contain -/
def wfSrc : Tok → Prop
  | .text _ => True
  | .opn n as => wfName n ∧ ∀ kv ∈ as, wfKey kv.1
  | .void n as => wfName n ∧ ∀ kv ∈ as, wfKey kv.1
  | .close n => wfName n
  | .err => False

theorem wfName_no62 (n : Str) (h : wfName n) : ∀ x ∈ n, x ≠ 62 := by
  intro x hx e
  have := h.2 x hx
  subst e
  simp [nameCh] at this

theorem wfPiece_enc (cfg : Cfg) (hT : ∀ s, 60 ∉ cfg.escT s) (hA : ∀ s, 34 ∉ cfg.escA s) (t : Tok) (h : wfSrc t) :
    wfPiece (encTok cfg t) := by
  cases t with
  | text s => intro x hx e; subst e; exact hT s hx
  | opn n as =>
    refine ⟨h.1, ?_⟩
    intro kv hkv
    simp only [List.mem_map] at hkv
    obtain ⟨kv', hm, rfl⟩ := hkv
    exact ⟨h.2 kv' hm, fun x hx e => by subst e; exact hA _ hx⟩
  | void n as =>
    refine ⟨h.1, ?_⟩
    intro kv hkv
    simp only [List.mem_map] at hkv
    obtain ⟨kv', hm, rfl⟩ := hkv
    exact ⟨h.2 kv' hm, fun x hx e => by subst e; exact hA _ hx⟩
  | close n => exact wfName_no62 n h
  | err => exact h

theorem wfPiece_enc_all (cfg : Cfg) (hT : ∀ s, 60 ∉ cfg.escT s) (hA : ∀ s, 34 ∉ cfg.escA s) (ts : List Tok)
    (h : ∀ t ∈ ts, wfSrc t) : ∀ t ∈ enc cfg ts, wfPiece t := by
  intro t ht
  simp only [enc, List.mem_map] at ht
  obtain ⟨t', hm, rfl⟩ := ht
  exact wfPiece_enc cfg hT hA t' (h t' hm)

theorem map_dec_enc (cfg : Cfg) (decA : Str → Str) (hA : ∀ s, decA (cfg.escA s) = s) (as : List (Str × Str)) :
    (as.map (fun kv => (kv.1, cfg.escA kv.2))).map (fun kv => (kv.1, decA kv.2)) = as := by
  induction as with
  | nil => rfl
  | cons kv r ih => simp [ih, hA]

/-- decoding the normalised escaped stream gives the normalised source stream -/
theorem dec_normAcc (cfg : Cfg) (decT decA : Str → Str)
    (hT : ∀ s, decT (cfg.escT s) = s) (hTapp : ∀ a b, cfg.escT (a ++ b) = cfg.escT a ++ cfg.escT b)
    (hT0 : cfg.escT [] = []) (hA : ∀ s, decA (cfg.escA s) = s) : (S : List Tok) → (a : Str) →
    mapAttrVals decA (mapText decT (normAcc (cfg.escT a) (enc cfg S))) = normAcc a S := by
  have hne : ∀ a, cfg.escT a = [] → a = [] := by
    intro a h
    have h1 := hT a
    rw [h, ← hT0, hT] at h1
    exact h1.symm
  have hemit : ∀ (a : Str) (Y : List Tok), mapAttrVals decA (mapText decT (emitN (cfg.escT a) ++ Y))
      = emitN a ++ mapAttrVals decA (mapText decT Y) := by
    intro a Y
    by_cases ha : a = []
    · subst ha; simp [emitN, hT0]
    · have : cfg.escT a ≠ [] := fun h => ha (hne a h)
      simp [emitN, ha, this, mapText, mapAttrVals, hT]
  intro S
  induction S with
  | nil =>
    intro a
    have := hemit a []
    simpa [normAcc, enc, mapText, mapAttrVals] using this
  | cons t r ih =>
    intro a
    have ih0 := ih []
    rw [hT0] at ih0
    cases t with
    | text s =>
      simp only [enc_cons, encTok, normAcc]
      rw [← hTapp]; exact ih (a ++ s)
    | opn n as =>
      simp only [enc_cons, encTok, normAcc]
      rw [hemit]
      simp only [mapText, mapAttrVals, ih0, map_dec_enc cfg decA hA]
    | void n as =>
      simp only [enc_cons, encTok, normAcc]
      rw [hemit]
      simp only [mapText, mapAttrVals, ih0, map_dec_enc cfg decA hA]
    | close n =>
      simp only [enc_cons, encTok, normAcc]
      rw [hemit]
      simp only [mapText, mapAttrVals, ih0]
    | err =>
      simp only [enc_cons, encTok, normAcc]
      rw [hemit]
      simp only [mapText, mapAttrVals, ih0]

/-! ## Part 4 — the token-level twin of the renderer -/

theorem ordinary_el (cfg : Cfg) (n : Str) (ws : Bool) (a : AttrList) (kids : NodeList) :
    ordinary cfg (.El n ws a kids) = (wfName n ∧ cfg.noEsc n = false ∧ plainAttrs a ∧ ordinaryL cfg kids) := by
  rw [ordinary]
theorem ordinary_raw (cfg : Cfg) (s : Str) : ordinary cfg (.Raw s) = False := by simp [ordinary]
theorem ordinary_md (cfg : Cfg) (d : Dep) : ordinary cfg (.Md d) = False := by simp [ordinary]
theorem ordinary_rp (cfg : Cfg) (s : Str) (o : Int) : ordinary cfg (.Rp s o) = False := by simp [ordinary]
theorem ordinary_ob (cfg : Cfg) (o : Int) : ordinary cfg (.Ob o) = False := by simp [ordinary]
theorem ordinaryL_cons (cfg : Cfg) (c : Node) (r : NodeList) :
    ordinaryL cfg (.NCons c r) = (ordinary cfg c ∧ ordinaryL cfg r) := by rw [ordinaryL]

theorem events_el (cfg : Cfg) (n : Str) (ws : Bool) (a : AttrList) (kids : NodeList) :
    events cfg (.El n ws a kids) =
      (match nonMeta kids with
      | .NNil => if cfg.isVoid n then [.void n (attrPairs a)] else [.opn n (attrPairs a), .close n]
      | _ => [.opn n (attrPairs a)] ++ eventsL cfg kids ++ [.close n]) := by rw [events]
theorem events_txt (cfg : Cfg) (s : Str) : events cfg (.Txt s) = [.text s] := by rw [events]
theorem eventsL_nil (cfg : Cfg) : eventsL cfg .NNil = [] := by rw [eventsL]
theorem eventsL_cons (cfg : Cfg) (c : Node) (r : NodeList) :
    eventsL cfg (.NCons c r) = events cfg c ++ eventsL cfg r := by rw [eventsL]

/-- token twin of `tagFrame` (source level: text and attribute values not yet escaped) -/
def frameToks (cfg : Cfg) (n : Str) (ws : Bool) (as : List (Str × Str)) (ks : NodeList) (inner : List Tok)
    (i : Nat) (eol : Str) : List Tok :=
  match ks with
  | .NNil => if cfg.isVoid n then [.text (ind i), .void n as] else [.text (ind i), .opn n as, .close n]
  | .NCons (.Txt s) .NNil => [.text (ind i), .opn n as, .text s, .close n]
  | _ => [.text (ind i), .opn n as, .text (if ws then eol else [])] ++ inner ++
      [.text (if ws then eol ++ ind i else []), .close n]

/-- token twin of `rl_step` -/
def stepToks (c : Node) (first prev : Bool) (i : Nat) (eol : Str) (tI t0 : List Tok) : List Tok :=
  match c with
  | .El _ ws _ _ => .text (sep first (prev || ws) eol) :: (if (prev || ws) then tI else t0)
  | .Txt s => [.text (sep first prev eol ++ lead prev i), .text s]
  | _ => []
def stepFirst (c : Node) (first : Bool) : Bool :=
  match c with
  | .El _ _ _ _ => false
  | .Txt _ => false
  | _ => first
def stepPrev (c : Node) (prev : Bool) : Bool :=
  match c with
  | .El _ ws _ _ => ws
  | .Txt _ => false
  | _ => prev

mutual
def stoks (cfg : Cfg) (t : Node) (i : Nat) (eol : Str) : List Tok :=
  match t with
  | .El n ws a kids => frameToks cfg n ws (attrPairs a) kids (ltoks cfg kids true ws (i+1) eol) i eol
  | _ => []
def ltoks (cfg : Cfg) (l : NodeList) (first prev : Bool) (i : Nat) (eol : Str) : List Tok :=
  match l with
  | .NNil => []
  | .NCons c r =>
    stepToks c first prev i eol (stoks cfg c i eol) (stoks cfg c 0 []) ++
      ltoks cfg r (stepFirst c first) (stepPrev c prev) i eol
end

theorem stoks_el (cfg : Cfg) (n : Str) (ws : Bool) (a : AttrList) (kids : NodeList) (i : Nat) (eol : Str) :
    stoks cfg (.El n ws a kids) i eol =
      frameToks cfg n ws (attrPairs a) kids (ltoks cfg kids true ws (i+1) eol) i eol := by rw [stoks]
theorem stoks_txt (cfg : Cfg) (s : Str) (i : Nat) (eol : Str) : stoks cfg (.Txt s) i eol = [] := by simp [stoks]
theorem ltoks_nil (cfg : Cfg) (first prev : Bool) (i : Nat) (eol : Str) : ltoks cfg .NNil first prev i eol = [] := by
  rw [ltoks]
theorem ltoks_cons (cfg : Cfg) (c : Node) (r : NodeList) (first prev : Bool) (i : Nat) (eol : Str) :
    ltoks cfg (.NCons c r) first prev i eol =
      stepToks c first prev i eol (stoks cfg c i eol) (stoks cfg c 0 []) ++
        ltoks cfg r (stepFirst c first) (stepPrev c prev) i eol := by rw [ltoks]

theorem rtag_txt (cfg : Cfg) (s : Str) (i : Nat) (eol : Str) : rtag cfg (.Txt s) i eol = [] := by simp [rtag]

theorem pairStr_enc (cfg : Cfg) (a : AttrList) (h : plainAttrs a) :
    pairStr ((attrPairs a).map (fun kv => (kv.1, cfg.escA kv.2))) = attrStr cfg a := by
  induction a with
  | ANil => simp [attrPairs, pairStr, attrStr]
  | ACons k v tl ih =>
    cases v with
    | Plain s =>
      simp only [plainAttrs] at h
      simp [attrPairs, pairStr, attrStr, renderAttr, ih h.2, List.append_assoc]
    | RawV s => simp [plainAttrs] at h

theorem wfKey_attrPairs (a : AttrList) (h : plainAttrs a) : ∀ kv ∈ attrPairs a, wfKey kv.1 := by
  induction a with
  | ANil => simp [attrPairs]
  | ACons k v tl ih =>
    cases v with
    | Plain s =>
      simp only [plainAttrs] at h
      intro kv hkv
      simp only [attrPairs, List.mem_cons] at hkv
      rcases hkv with rfl | hkv
      · exact h.1
      · exact ih h.2 kv hkv
    | RawV s => simp [plainAttrs] at h

theorem nonMeta_ordinary (cfg : Cfg) : (l : NodeList) → ordinaryL cfg l → nonMeta l = l
  | .NNil, _ => by simp [nonMeta]
  | .NCons c r, h => by
    rw [ordinaryL_cons] at h
    have ih := nonMeta_ordinary cfg r h.2
    cases c with
    | Md d => exact absurd h.1 (by simp [ordinary_md])
    | El n ws a k => simp [nonMeta, isMeta, ih]
    | Txt s => simp [nonMeta, isMeta, ih]
    | Raw s => simp [nonMeta, isMeta, ih]
    | Rp s o => simp [nonMeta, isMeta, ih]
    | Ob o => simp [nonMeta, isMeta, ih]

section layout
variable (eol0 : Str)

theorem allP_ind (i : Nat) : allP (isLayoutWs eol0) (ind i) := by
  induction i with
  | zero => rw [ind_zero]; exact allP_nil _
  | succ i ih =>
    rw [ind_succ]
    apply allP_append _ _ _ _ ih
    intro c hc
    simp only [List.mem_cons, List.not_mem_nil, or_false] at hc
    rcases hc with rfl | rfl <;> simp [isLayoutWs]

theorem allP_sep (f p : Bool) (eol : Str) (h : allP (isLayoutWs eol0) eol) : allP (isLayoutWs eol0) (sep f p eol) := by
  cases f <;> cases p <;> simp [sep, h, allP_nil]

theorem allP_lead (p : Bool) (i : Nat) : allP (isLayoutWs eol0) (lead p i) := by
  cases p <;> simp [lead, allP_nil, allP_ind]

end layout

theorem frame_flat (cfg : Cfg) (eol0 : Str) (hW : ∀ w, allP (isLayoutWs eol0) w → cfg.escT w = w)
    (n : Str) (ws : Bool) (a : AttrList) (ks : NodeList) (inner : List Tok) (i : Nat) (eol : Str)
    (heol : allP (isLayoutWs eol0) eol) (hne : cfg.noEsc n = false) (hpa : plainAttrs a) (hks : ordinaryL cfg ks) :
    flatten (enc cfg (frameToks cfg n ws (attrPairs a) ks inner i eol)) =
      tagFrame cfg n ws (ind i ++ [60] ++ n ++ attrStr cfg a) ks (flatten (enc cfg inner)) i eol := by
  have e1 : cfg.escT (ind i) = ind i := hW _ (allP_ind eol0 i)
  have e2 : cfg.escT (if ws then eol else []) = (if ws then eol else []) :=
    hW _ (by cases ws <;> simp [allP_nil, heol])
  have e3 : cfg.escT (if ws then eol ++ ind i else []) = (if ws then eol ++ ind i else []) :=
    hW _ (by cases ws <;> simp [allP_nil, allP_append _ _ _ heol (allP_ind eol0 i)])
  have hp := pairStr_enc cfg a hpa
  have general : flatten (enc cfg ([.text (ind i), .opn n (attrPairs a), .text (if ws then eol else [])] ++ inner ++
      [.text (if ws then eol ++ ind i else []), .close n])) =
      ind i ++ [60] ++ n ++ attrStr cfg a ++ [62] ++ (if ws then eol else []) ++ flatten (enc cfg inner) ++
        (if ws then eol ++ ind i else []) ++ closeT n := by
    simp only [enc_append, flatten_append, enc_cons, enc_nil, encTok, flatten, tokStr, e1, e2, e3, hp, closeT,
      List.append_assoc, List.append_nil, List.cons_append, List.nil_append]
  cases ks with
  | NNil =>
    simp only [frameToks, tagFrame]
    split <;> simp [enc, encTok, flatten, tokStr, e1, hp, closeT, List.append_assoc]
  | NCons c r =>
    rw [ordinaryL_cons] at hks
    cases r with
    | NNil =>
      cases c with
      | Txt s => simp [frameToks, tagFrame, hne, enc, encTok, flatten, tokStr, e1, hp, closeT, List.append_assoc]
      | El n' ws' a' k' => simp only [frameToks, tagFrame]; exact general
      | Raw s => exact absurd hks.1 (by simp [ordinary_raw])
      | Md d => exact absurd hks.1 (by simp [ordinary_md])
      | Rp s o => exact absurd hks.1 (by simp [ordinary_rp])
      | Ob o => exact absurd hks.1 (by simp [ordinary_ob])
    | NCons c2 r2 =>
      cases c <;> (simp only [frameToks, tagFrame]; exact general)

theorem step_flat (cfg : Cfg) (eol0 : Str) (hW : ∀ w, allP (isLayoutWs eol0) w → cfg.escT w = w)
    (c : Node) (st : St) (i : Nat) (eol : Str) (heol : allP (isLayoutWs eol0) eol) (ho : ordinary cfg c)
    (tI t0 : List Tok) :
    rl_step cfg st c (flatten (enc cfg tI)) (flatten (enc cfg t0)) i eol true =
      ⟨st.html ++ flatten (enc cfg (stepToks c st.first st.prev i eol tI t0)), stepFirst c st.first, stepPrev c st.prev⟩ := by
  cases c with
  | El n ws a k =>
    have e1 : cfg.escT (sep st.first (st.prev || ws) eol) = sep st.first (st.prev || ws) eol :=
      hW _ (allP_sep eol0 _ _ _ heol)
    simp only [rl_step, stepToks, stepFirst, stepPrev, enc_cons, encTok, flatten, tokStr, e1]
    cases (st.prev || ws) <;> simp [List.append_assoc]
  | Txt s =>
    have e1 : cfg.escT (sep st.first st.prev eol ++ lead st.prev i) = sep st.first st.prev eol ++ lead st.prev i :=
      hW _ (allP_append _ _ _ (allP_sep eol0 _ _ _ heol) (allP_lead eol0 _ _))
    simp [rl_step, stepToks, stepFirst, stepPrev, enc, encTok, flatten, tokStr, e1, List.append_assoc]
  | Raw s => exact absurd ho (by simp [ordinary_raw])
  | Md d => exact absurd ho (by simp [ordinary_md])
  | Rp s o => exact absurd ho (by simp [ordinary_rp])
  | Ob o => exact absurd ho (by simp [ordinary_ob])

mutual
/-- the escaped twin flattens to exactly the rendered string -/
theorem stoks_flat (cfg : Cfg) (eol0 : Str) (hW : ∀ w, allP (isLayoutWs eol0) w → cfg.escT w = w) :
    (t : Node) → (i : Nat) → (eol : Str) → allP (isLayoutWs eol0) eol → ordinary cfg t →
    flatten (enc cfg (stoks cfg t i eol)) = rtag cfg t i eol
  | .El n ws a kids, i, eol, heol, ho => by
    rw [ordinary_el] at ho
    obtain ⟨_, hne, hpa, hk⟩ := ho
    have hl := ltoks_flat cfg eol0 hW kids ⟨[], true, ws⟩ (i+1) eol heol hk
    simp only [List.nil_append] at hl
    rw [stoks_el, rtag_el, attrFold_eq, nonMeta_ordinary cfg kids hk, hne]
    simp only [Bool.not_false]
    rw [hl]
    exact frame_flat cfg eol0 hW n ws a kids _ i eol heol hne hpa hk
  | .Txt s, i, eol, _, _ => by rw [stoks_txt, rtag_txt]; rfl
  | .Raw s, _, _, _, ho => absurd ho (by simp [ordinary_raw])
  | .Md d, _, _, _, ho => absurd ho (by simp [ordinary_md])
  | .Rp s o, _, _, _, ho => absurd ho (by simp [ordinary_rp])
  | .Ob o, _, _, _, ho => absurd ho (by simp [ordinary_ob])
theorem ltoks_flat (cfg : Cfg) (eol0 : Str) (hW : ∀ w, allP (isLayoutWs eol0) w → cfg.escT w = w) :
    (l : NodeList) → (st : St) → (i : Nat) → (eol : Str) → allP (isLayoutWs eol0) eol → ordinaryL cfg l →
    (rlist cfg l st i eol true).html = st.html ++ flatten (enc cfg (ltoks cfg l st.first st.prev i eol))
  | .NNil, st, i, eol, _, _ => by simp [rlist_nil, ltoks_nil, enc, flatten]
  | .NCons c r, st, i, eol, heol, ho => by
    rw [ordinaryL_cons] at ho
    have hI := stoks_flat cfg eol0 hW c i eol heol ho.1
    have h0 := stoks_flat cfg eol0 hW c 0 [] (allP_nil _) ho.1
    rw [rlist_cons, ltoks_cons, ← hI, ← h0, step_flat cfg eol0 hW c st i eol heol ho.1]
    rw [ltoks_flat cfg eol0 hW r _ i eol heol ho.2]
    simp only [enc_append, flatten_append, List.append_assoc]
end

/-! every token of the twin is well formed -/
theorem wf_frameToks (cfg : Cfg) (n : Str) (ws : Bool) (as : List (Str × Str)) (ks : NodeList) (inner : List Tok)
    (i : Nat) (eol : Str) (hn : wfName n) (has : ∀ kv ∈ as, wfKey kv.1) (hin : ∀ t ∈ inner, wfSrc t) :
    ∀ t ∈ frameToks cfg n ws as ks inner i eol, wfSrc t := by
  have ho : wfSrc (.opn n as) := ⟨hn, has⟩
  have hv : wfSrc (.void n as) := ⟨hn, has⟩
  have hc : wfSrc (.close n) := hn
  have general : ∀ t ∈ [Tok.text (ind i), .opn n as, .text (if ws then eol else [])] ++ inner ++
      [.text (if ws then eol ++ ind i else []), .close n], wfSrc t := by
    intro t ht
    simp only [List.mem_append, List.mem_cons, List.not_mem_nil, or_false] at ht
    rcases ht with (((rfl | rfl | rfl) | ht) | (rfl | rfl))
    · trivial
    · exact ho
    · trivial
    · exact hin t ht
    · trivial
    · exact hc
  intro t ht
  unfold frameToks at ht
  split at ht
  · split at ht
    · simp only [List.mem_cons, List.not_mem_nil, or_false] at ht
      rcases ht with rfl | rfl
      · trivial
      · exact hv
    · simp only [List.mem_cons, List.not_mem_nil, or_false] at ht
      rcases ht with rfl | rfl | rfl
      · trivial
      · exact ho
      · exact hc
  · simp only [List.mem_cons, List.not_mem_nil, or_false] at ht
    rcases ht with rfl | rfl | rfl | rfl
    · trivial
    · exact ho
    · trivial
    · exact hc
  · exact general t ht

theorem wf_stepToks (c : Node) (first prev : Bool) (i : Nat) (eol : Str) (tI t0 : List Tok)
    (hI : ∀ t ∈ tI, wfSrc t) (h0 : ∀ t ∈ t0, wfSrc t) : ∀ t ∈ stepToks c first prev i eol tI t0, wfSrc t := by
  intro t ht
  cases c with
  | El n ws a k =>
    simp only [stepToks, List.mem_cons] at ht
    rcases ht with rfl | ht
    · trivial
    · split at ht
      · exact hI t ht
      · exact h0 t ht
  | Txt s =>
    simp only [stepToks, List.mem_cons, List.not_mem_nil, or_false] at ht
    rcases ht with rfl | rfl <;> trivial
  | Raw s => simp [stepToks] at ht
  | Md d => simp [stepToks] at ht
  | Rp s o => simp [stepToks] at ht
  | Ob o => simp [stepToks] at ht

mutual
theorem stoks_wf (cfg : Cfg) : (t : Node) → (i : Nat) → (eol : Str) → ordinary cfg t →
    ∀ tk ∈ stoks cfg t i eol, wfSrc tk
  | .El n ws a kids, i, eol, ho => by
    rw [ordinary_el] at ho
    obtain ⟨hn, _, hpa, hk⟩ := ho
    rw [stoks_el]
    exact wf_frameToks cfg n ws _ kids _ i eol hn (wfKey_attrPairs a hpa) (ltoks_wf cfg kids true ws (i+1) eol hk)
  | .Txt s, i, eol, _ => by rw [stoks_txt]; simp
  | .Raw s, _, _, ho => absurd ho (by simp [ordinary_raw])
  | .Md d, _, _, ho => absurd ho (by simp [ordinary_md])
  | .Rp s o, _, _, ho => absurd ho (by simp [ordinary_rp])
  | .Ob o, _, _, ho => absurd ho (by simp [ordinary_ob])
theorem ltoks_wf (cfg : Cfg) : (l : NodeList) → (first prev : Bool) → (i : Nat) → (eol : Str) → ordinaryL cfg l →
    ∀ tk ∈ ltoks cfg l first prev i eol, wfSrc tk
  | .NNil, _, _, _, _, _ => by rw [ltoks_nil]; simp
  | .NCons c r, first, prev, i, eol, ho => by
    rw [ordinaryL_cons] at ho
    rw [ltoks_cons]
    intro tk htk
    rcases List.mem_append.mp htk with h | h
    · exact wf_stepToks c first prev i eol _ _ (stoks_wf cfg c i eol ho.1) (stoks_wf cfg c 0 [] ho.1) tk h
    · exact ltoks_wf cfg r _ _ i eol ho.2 tk h
end

/-! ## Part 5 — the twin and the event list have the same canonical form -/

/-- `events` of an element, as a frame around the events of the children -/
def evFrame (cfg : Cfg) (n : Str) (as : List (Str × Str)) (kids : NodeList) (evk : List Tok) : List Tok :=
  match kids with
  | .NNil => if cfg.isVoid n then [.void n as] else [.opn n as, .close n]
  | _ => [.opn n as] ++ evk ++ [.close n]

theorem events_el' (cfg : Cfg) (n : Str) (ws : Bool) (a : AttrList) (kids : NodeList) (hk : ordinaryL cfg kids) :
    events cfg (.El n ws a kids) = evFrame cfg n (attrPairs a) kids (eventsL cfg kids) := by
  rw [events_el, nonMeta_ordinary cfg kids hk]
  cases kids <;> rfl

theorem emit_eq_of_trim (ws : Nat → Bool) (a1 a2 : Str) (h : trim ws a1 = trim ws a2) : emit ws a1 = emit ws a2 := by
  simp only [emit, h]

theorem frame_canon (cfg : Cfg) (eol0 : Str) (n : Str) (ws : Bool) (as : List (Str × Str)) (kids : NodeList)
    (inner evk : List Tok) (i : Nat) (eol : Str) (heol : allP (isLayoutWs eol0) eol)
    (htx : ∀ s, kids = .NCons (.Txt s) .NNil → evk = [.text s])
    (hin : ∀ a1 a2 r1 r2, trimL (isLayoutWs eol0) a1 = trimL (isLayoutWs eol0) a2 →
      (ws = true → allP (isLayoutWs eol0) a1) →
      (∀ b1 b2, trimL (isLayoutWs eol0) b1 = trimL (isLayoutWs eol0) b2 →
        canonAcc (isLayoutWs eol0) b1 r1 = canonAcc (isLayoutWs eol0) b2 r2) →
      canonAcc (isLayoutWs eol0) a1 (inner ++ r1) = canonAcc (isLayoutWs eol0) a2 (evk ++ r2))
    (a1 a2 : Str) (r1 r2 : List Tok) (ha : trim (isLayoutWs eol0) a1 = trim (isLayoutWs eol0) a2)
    (hr : canonAcc (isLayoutWs eol0) [] r1 = canonAcc (isLayoutWs eol0) [] r2) :
    canonAcc (isLayoutWs eol0) a1 (frameToks cfg n ws as kids inner i eol ++ r1) =
      canonAcc (isLayoutWs eol0) a2 (evFrame cfg n as kids evk ++ r2) := by
  have hemit : emit (isLayoutWs eol0) (a1 ++ ind i) = emit (isLayoutWs eol0) a2 := by
    rw [emit_append_all _ _ _ (allP_ind eol0 i)]; exact emit_eq_of_trim _ _ _ ha
  have hW : allP (isLayoutWs eol0) (if ws then eol else []) := by cases ws <;> simp [allP_nil, heol]
  have hW' : allP (isLayoutWs eol0) (if ws then eol ++ ind i else []) := by
    cases ws <;> simp [allP_nil, allP_append _ _ _ heol (allP_ind eol0 i)]
  have general : canonAcc (isLayoutWs eol0) a1 (([.text (ind i), .opn n as, .text (if ws then eol else [])] ++ inner ++
      [.text (if ws then eol ++ ind i else []), .close n]) ++ r1) =
      canonAcc (isLayoutWs eol0) a2 (([.opn n as] ++ evk ++ [.close n]) ++ r2) := by
    have hcont : ∀ b1 b2, trimL (isLayoutWs eol0) b1 = trimL (isLayoutWs eol0) b2 →
        canonAcc (isLayoutWs eol0) b1 (.text (if ws then eol ++ ind i else []) :: .close n :: r1) =
        canonAcc (isLayoutWs eol0) b2 (.close n :: r2) := by
      intro b1 b2 hb
      simp only [canonAcc]
      rw [emit_append_all _ _ _ hW', emit_congr _ b1 b2 hb, hr]
    have h := hin (if ws then eol else []) [] _ _
      (by rw [trimL_all_nil _ _ hW]; rfl) (fun _ => hW) hcont
    simp only [List.cons_append, List.nil_append, List.append_assoc, canonAcc]
    rw [hemit, h]
  cases kids with
  | NNil =>
    simp only [frameToks, evFrame]
    split
    · simp only [List.cons_append, List.nil_append, canonAcc]; rw [hemit, hr]
    · simp only [List.cons_append, List.nil_append, canonAcc]; rw [hemit, hr]
  | NCons c r =>
    cases r with
    | NNil =>
      cases c with
      | Txt s =>
        rw [htx s rfl]
        simp only [frameToks, evFrame, List.cons_append, List.nil_append, canonAcc]
        rw [hemit, hr]
      | El n' ws' a' k' => simp only [frameToks, evFrame]; exact general
      | Raw s => simp only [frameToks, evFrame]; exact general
      | Md d => simp only [frameToks, evFrame]; exact general
      | Rp s o => simp only [frameToks, evFrame]; exact general
      | Ob o => simp only [frameToks, evFrame]; exact general
    | NCons c2 r2 =>
      cases c <;> (simp only [frameToks, evFrame]; exact general)

mutual
theorem stoks_canon (cfg : Cfg) (eol0 : Str) : (t : Node) → (i : Nat) → (eol : Str) → allP (isLayoutWs eol0) eol →
    ordinary cfg t → isEl t = true → ∀ (a1 a2 : Str) (r1 r2 : List Tok),
    trim (isLayoutWs eol0) a1 = trim (isLayoutWs eol0) a2 →
    canonAcc (isLayoutWs eol0) [] r1 = canonAcc (isLayoutWs eol0) [] r2 →
    canonAcc (isLayoutWs eol0) a1 (stoks cfg t i eol ++ r1) = canonAcc (isLayoutWs eol0) a2 (events cfg t ++ r2)
  | .El n ws a kids, i, eol, heol, ho, _ => by
    rw [ordinary_el] at ho
    obtain ⟨_, _, _, hk⟩ := ho
    have hin := ltoks_canon cfg eol0 kids true ws (i+1) eol heol hk
    intro a1 a2 r1 r2 ha hr
    rw [stoks_el, events_el' cfg n ws a kids hk]
    refine frame_canon cfg eol0 n ws _ kids _ _ i eol heol ?_ hin a1 a2 r1 r2 ha hr
    intro s hs
    subst hs
    rw [eventsL_cons, events_txt, eventsL_nil]; rfl
  | .Txt s, _, _, _, _, h => by simp [isEl] at h
  | .Raw s, _, _, _, _, h => by simp [isEl] at h
  | .Md d, _, _, _, _, h => by simp [isEl] at h
  | .Rp s o, _, _, _, _, h => by simp [isEl] at h
  | .Ob o, _, _, _, _, h => by simp [isEl] at h
theorem ltoks_canon (cfg : Cfg) (eol0 : Str) : (l : NodeList) → (first prev : Bool) → (i : Nat) → (eol : Str) →
    allP (isLayoutWs eol0) eol → ordinaryL cfg l → ∀ (a1 a2 : Str) (r1 r2 : List Tok),
    trimL (isLayoutWs eol0) a1 = trimL (isLayoutWs eol0) a2 →
    (prev = true → allP (isLayoutWs eol0) a1) →
    (∀ b1 b2, trimL (isLayoutWs eol0) b1 = trimL (isLayoutWs eol0) b2 →
      canonAcc (isLayoutWs eol0) b1 r1 = canonAcc (isLayoutWs eol0) b2 r2) →
    canonAcc (isLayoutWs eol0) a1 (ltoks cfg l first prev i eol ++ r1) =
      canonAcc (isLayoutWs eol0) a2 (eventsL cfg l ++ r2)
  | .NNil, first, prev, i, eol, _, _ => by
    intro a1 a2 r1 r2 ha _ hc
    rw [ltoks_nil, eventsL_nil]
    exact hc a1 a2 ha
  | .NCons c r, first, prev, i, eol, heol, ho => by
    rw [ordinaryL_cons] at ho
    have hI := stoks_canon cfg eol0 c i eol heol ho.1
    have h0 := stoks_canon cfg eol0 c 0 [] (allP_nil _) ho.1
    have hr := ltoks_canon cfg eol0 r (stepFirst c first) (stepPrev c prev) i eol heol ho.2
    intro a1 a2 r1 r2 ha hp hc
    rw [ltoks_cons, eventsL_cons, List.append_assoc, List.append_assoc]
    cases c with
    | El n ws a k =>
      have ha' : ∀ p, trim (isLayoutWs eol0) (a1 ++ sep first p eol) = trim (isLayoutWs eol0) a2 := by
        intro p
        rw [trim_append_all _ _ _ (allP_sep eol0 _ _ _ heol)]; exact trim_congr _ _ _ ha
      have hrest := hr [] [] r1 r2 rfl (fun _ => allP_nil _) hc
      simp only [stepToks, List.cons_append, canonAcc_text]
      cases (prev || ws)
      · exact h0 rfl _ _ _ _ (ha' _) hrest
      · exact hI rfl _ _ _ _ (ha' _) hrest
    | Txt s =>
      rw [events_txt]
      simp only [stepToks, List.cons_append, List.nil_append, canonAcc_text]
      apply hr _ _ r1 r2 _ (by simp [stepPrev]) hc
      cases prev with
      | false =>
        have : sep first false eol ++ lead false i = [] := by cases first <;> simp [sep, lead]
        rw [this, List.append_nil]
        exact trimL_congr _ _ _ _ ha
      | true =>
        have h1 := hp rfl
        have h2 : allP (isLayoutWs eol0) a2 := allP_of_trimL_nil _ _ (by rw [← ha]; exact trimL_all_nil _ _ h1)
        have hW : allP (isLayoutWs eol0) (sep first true eol ++ lead true i) :=
          allP_append _ _ _ (allP_sep eol0 _ _ _ heol) (allP_lead eol0 _ _)
        rw [trimL_all _ _ _ (allP_append _ _ _ h1 hW), trimL_all _ _ _ h2]
    | Raw s => exact absurd ho.1 (by simp [ordinary_raw])
    | Md d => exact absurd ho.1 (by simp [ordinary_md])
    | Rp s o => exact absurd ho.1 (by simp [ordinary_rp])
    | Ob o => exact absurd ho.1 (by simp [ordinary_ob])
end

/-- C01, parametric in the escaping functions: it is enough that escaped text never contains '<' and decodes back,
that escaping is per character (distributes over concatenation) and leaves layout whitespace alone, and that escaped
attribute values never contain '"' and decode back (all provided for the real tables by C02 / C03) -/
theorem C01_parse_back_gen (cfg : Cfg) (decT decA : Str → Str)
    (hT : ∀ s, 60 ∉ cfg.escT s ∧ decT (cfg.escT s) = s)
    (hTapp : ∀ a b, cfg.escT (a ++ b) = cfg.escT a ++ cfg.escT b)
    (hA : ∀ s, 34 ∉ cfg.escA s ∧ decA (cfg.escA s) = s)
    (eol : Str) (hTws : ∀ w, (∀ c ∈ w, isLayoutWs eol c = true) → cfg.escT w = w)
    (t : Node) (ht : isEl t = true) (ho : ordinary cfg t) (i : Nat) :
    canon (isLayoutWs eol) (mapAttrVals decA (mapText decT (lex (rtag cfg t i eol))))
      = canon (isLayoutWs eol) (events cfg t) := by
  have hT0 : cfg.escT [] = [] := hTws [] (by intro c h; simp at h)
  have hW : ∀ w, allP (isLayoutWs eol) w → cfg.escT w = w := hTws
  have heol : allP (isLayoutWs eol) eol := by
    intro c hc; simp [isLayoutWs, hc]
  have hflat := stoks_flat cfg eol hW t i eol heol ho
  have hwf := wfPiece_enc_all cfg (fun s => (hT s).1) (fun s => (hA s).1) _ (stoks_wf cfg t i eol ho)
  have hlex : lex (rtag cfg t i eol) = normAcc [] (enc cfg (stoks cfg t i eol)) := by
    rw [← hflat]; unfold lex
    have := lex_norm _ hwf [] (by simp) (flatten (enc cfg (stoks cfg t i eol))).length (by simp)
    simpa using this
  have hdec := dec_normAcc cfg decT decA (fun s => (hT s).2) hTapp hT0 (fun s => (hA s).2) (stoks cfg t i eol) []
  rw [hT0] at hdec
  rw [hlex, hdec, canon_eq, canon_eq, canonAcc_normAcc]
  have := stoks_canon cfg eol t i eol heol ho ht [] [] [] [] rfl rfl
  simpa using this

/-- C01 for the tables of this run; the characters of eol must not be characters the text table escapes -/
theorem C01_parse_back (eol : Str) (heol : ∀ c ∈ eol, lookup TEXT c = none)
    (t : Node) (ht : isEl t = true) (ho : ordinary realCfg t) (i : Nat) :
    canon (isLayoutWs eol) (mapAttrVals (decode ATTR) (mapText (decode TEXT) (lex (rtag realCfg t i eol))))
      = canon (isLayoutWs eol) (events realCfg t) := by
  have h32 : lookup TEXT 32 = none := by decide
  refine C01_parse_back_gen realCfg (decode TEXT) (decode ATTR)
    (fun s => ⟨(C02_no_lt_gt s).1, C02_decodes s⟩) C02_esc_append
    (fun s => ⟨(C03_inert s).1, C03_decodes s⟩) eol ?_ t ht ho i
  intro w hw
  show esc TEXT w = w
  apply esc_noop
  intro k hk hkw
  have hs : (lookup TEXT k).isSome = true := (lookup_isSome_iff TEXT k).mpr hk
  have hl := hw k hkw
  simp only [isLayoutWs, Bool.or_eq_true, beq_iff_eq, List.contains_iff_mem] at hl
  rcases hl with rfl | hl
  · simp [h32] at hs
  · simp [heol k hl] at hs

/-- the void form: a childless void element is one self-closed tag with no end tag; every other element has its own end tag -/
theorem tagFrame_close (cfg : Cfg) (n : Str) (ws : Bool) (op : Str) (ks : NodeList) (inner : Str) (i : Nat) (eol : Str)
    (h : ks ≠ .NNil) : ∃ pre, tagFrame cfg n ws op ks inner i eol = pre ++ closeT n := by
  unfold tagFrame
  split
  · exact absurd rfl h
  · split <;> exact ⟨_, rfl⟩
  · exact ⟨_, rfl⟩
  · exact ⟨_, rfl⟩

theorem C01_void_form (cfg : Cfg) (n : Str) (ws : Bool) (a : AttrList) (kids : NodeList) (i : Nat) (eol : Str)
    (hk : nonMeta kids = .NNil) :
    rtag cfg (.El n ws a kids) i eol =
      (if cfg.isVoid n then ind i ++ [60] ++ n ++ attrStr cfg a ++ [47, 62] else ind i ++ [60] ++ n ++ attrStr cfg a ++ [62] ++ closeT n) := by
  rw [rtag_el, attrFold_eq, hk]
  simp only [tagFrame]
theorem C01_close_tag (cfg : Cfg) (n : Str) (ws : Bool) (a : AttrList) (kids : NodeList) (i : Nat) (eol : Str)
    (hk : nonMeta kids ≠ .NNil) : ∃ pre, rtag cfg (.El n ws a kids) i eol = pre ++ closeT n := by
  rw [rtag_el]
  exact tagFrame_close cfg n ws _ _ _ i eol hk

#print axioms C01_parse_back_gen
#print axioms C01_parse_back
#print axioms C01_void_form
#print axioms C01_close_tag

end HV
