/-
C20 — strings free of backslashes and line breaks are written as double-quoted JavaScript literals denoting the original text.
`jsUnquote` is a reference reader of a double-quoted JavaScript string literal (ECMAScript StringLiteral, the part needed here):
opening quote, then characters; a backslash escapes the next character (`\"` is a quote, `\\` a backslash, `\n`, `\r`, `\t` the usual
controls, any other escaped character stands for itself); an unescaped quote closes the literal, which must be the end of the input;
an unescaped line terminator (LF, CR, U+2028, U+2029) is a syntax error.
-/
import HV.Spec
import HV.Esc
namespace HV

def isLineTerm (c : Nat) : Bool := c == 10 || c == 13 || c == 8232 || c == 8233

def unescapeJs (c : Nat) : Nat :=
  if c == 110 then 10 else if c == 114 then 13 else if c == 116 then 9 else c

/-- body of the literal after the opening quote: the decoded text, if the literal is well formed and ends the input -/
def jsBody : Str → Option Str
  | [] => none
  | 34 :: rest => if rest = [] then some [] else none
  | 92 :: c :: rest => (jsBody rest).map (fun r => unescapeJs c :: r)
  | [92] => none
  | c :: rest => if isLineTerm c then none else (jsBody rest).map (fun r => c :: r)

def jsUnquote : Str → Option Str
  | 34 :: rest => jsBody rest
  | _ => none

/-- no backslash and no line break in `s` -/
def jsSafe (s : Str) : Bool := s.all (fun c => c != 92 && !isLineTerm c)

theorem jsBody_cons_other (c : Nat) (rest : Str) (h1 : c ≠ 34) (h2 : c ≠ 92) :
    jsBody (c :: rest) = if isLineTerm c then none else (jsBody rest).map (fun r => c :: r) := by
  rw [jsBody]
  · intro hc; exact h1 hc
  · intro _ _ hc _; exact h2 hc
  · intro hc _; exact h2 hc

theorem jsBody_escq (rest : Str) : jsBody (92 :: 34 :: rest) = (jsBody rest).map (fun r => 34 :: r) := by
  rw [jsBody]; rfl

theorem jsBody_repl1 (s : Str) (h : jsSafe s = true) : jsBody (repl1 34 [92, 34] s ++ [34]) = some s := by
  induction s with
  | nil => simp [repl1, jsBody]
  | cons x xs ih =>
    simp only [jsSafe, List.all_cons, Bool.and_eq_true] at h
    have ih' := ih (by simpa [jsSafe] using h.2)
    have hx92 : x ≠ 92 := by simpa using h.1.1
    have hlt : isLineTerm x = false := by simpa using h.1.2
    simp only [repl1]
    by_cases hx : x = 34
    · subst hx
      simp only [if_true, List.cons_append, List.nil_append]
      rw [jsBody_escq, ih']; rfl
    · simp only [if_neg hx, List.cons_append]
      rw [jsBody_cons_other x _ hx hx92, ih', hlt]; rfl

theorem C20_js_string_denotes (s : Str) (h : jsSafe s = true) : jsUnquote (jsStr s) = some s := by
  simp only [jsStr, replaceAll_single, List.cons_append, List.nil_append, jsUnquote]
  exact jsBody_repl1 s h

/-- the literal has no unescaped quote inside: it is one token (its only unescaped quotes are the first and last characters) -/
theorem C20_js_string_shape (s : Str) : ∃ body, jsStr s = [34] ++ body ++ [34] ∧ body = replaceAll s [34] [92, 34] := by
  exact ⟨_, rfl, rfl⟩

#print axioms C20_js_string_denotes
end HV
