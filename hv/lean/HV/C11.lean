/-
C11 — HTMLDocument builds one head/body and hoists every dependency into <head>.
Statements fixed; proofs to be supplied.  `docTree`, `hoist`, `hoistKids`, `firstHead`, `replaceFirstHead`, `hasHead`, `isHeadTag`,
`newHead`, `headExtra`, `listingTag`, `metaCharset`, `depTagsAll`, `depTagChildren`, `depLabels`, `docRender`, `renderT` are generated
L1 specs (HV.Spec); `env.depTags d lp iv` is the markup of one dependency (uninterpreted here, C12's subject).
-/
import HV.C14
import HV.C10
namespace HV

def nlToList' : NodeList → List Node
  | .NNil => []
  | .NCons c r => c :: nlToList' r

/-! ### helper equation lemmas -/
theorem hasHead_nil : hasHead .NNil = false := by rw [hasHead]
theorem hasHead_cons (c : Node) (r : NodeList) : hasHead (.NCons c r) = (isHeadTag c || hasHead r) := by rw [hasHead]
theorem firstHead_nil : firstHead .NNil = .El ([104, 101, 97, 100] : Str) true .ANil .NNil := by rw [firstHead]
theorem firstHead_cons (c : Node) (r : NodeList) :
    firstHead (.NCons c r) = if isHeadTag c then c else firstHead r := by rw [firstHead]
theorem replaceFirstHead_nil (v : Node) : replaceFirstHead .NNil v = .NNil := by rw [replaceFirstHead]
theorem replaceFirstHead_cons (c : Node) (r : NodeList) (v : Node) :
    replaceFirstHead (.NCons c r) v = if isHeadTag c then .NCons v r else .NCons c (replaceFirstHead r v) := by
  rw [replaceFirstHead]
theorem isHeadTag_el (n : Str) (ws : Bool) (a : AttrList) (k : NodeList) :
    isHeadTag (.El n ws a k) = (n == ([104, 101, 97, 100] : Str)) := by rw [isHeadTag]
theorem nodes_nil : nodes .CNil = .NNil := by rw [nodes, C14_flat_nil, mapConvStep_nil, toNodes_nil]
theorem bad_nil : bad .CNil = false := by rw [bad, C14_flat_nil, anyBadAtom_nil]
theorem nlToList'_nil : nlToList' .NNil = [] := rfl
theorem nlToList'_cons (c : Node) (r : NodeList) : nlToList' (.NCons c r) = c :: nlToList' r := rfl

/-! ### lemmas used by the VC generator (imported into SMT as axioms once proved here) -/
theorem first_is_head (l : NodeList) (h : hasHead l = true) : isHeadTag (firstHead l) = true :=
  match l, h with
  | .NNil, h => by rw [hasHead_nil] at h; contradiction
  | .NCons c r, h => by
    rw [hasHead_cons] at h
    rw [firstHead_cons]
    cases hc : isHeadTag c
    · rw [hc] at h
      simp at h
      simp
      exact first_is_head r h
    · simp [hc]
theorem replace_first_same (l : NodeList) : replaceFirstHead l (firstHead l) = l :=
  match l with
  | .NNil => by rw [replaceFirstHead_nil]
  | .NCons c r => by
    rw [replaceFirstHead_cons, firstHead_cons]
    cases hc : isHeadTag c
    · simp
      exact replace_first_same r
    · simp
theorem nodes_one (n : Node) : nodes (.CCons (.CNode n) .CNil) = .NCons n .NNil := by
  rw [C14_nodes_cons_node, nodes_nil]
theorem bad_one (n : Node) : bad (.CCons (.CNode n) .CNil) = false := by
  rw [bad_cons_node, bad_nil]
theorem nodes_depTagChildren (env : Env) (ds : DepList) (lp : OptStr) (iv : Bool) :
    nodes (depTagChildren env ds lp iv) = depTagsAll env ds lp iv :=
  match ds with
  | .DLNil => by rw [depTagChildren, depTagsAll, nodes_nil]
  | .DLCons d r => by
    rw [depTagChildren, depTagsAll, C14_nodes_taglist_child, nodes_depTagChildren env r lp iv]
theorem bad_depTagChildren (env : Env) (ds : DepList) (lp : OptStr) (iv : Bool) : bad (depTagChildren env ds lp iv) = false :=
  match ds with
  | .DLNil => by rw [depTagChildren, bad_nil]
  | .DLCons d r => by
    rw [depTagChildren, bad_cons_seq, (C14_nodes_ofNodes _).2, bad_depTagChildren env r lp iv]; rfl

/-! ### more helpers -/
theorem hoist_el (env : Env) (n : Str) (ws : Bool) (a : AttrList) (kids : NodeList) (lp : OptStr) (iv : Bool) :
    hoist env (.El n ws a kids) lp iv =
      if hasHead kids then .El n ws a (hoistKids env kids (resolve (collectL kids .DLNil)) lp iv)
      else .El n ws a (.NCons (newHead env emptyHead (resolve (collectL kids .DLNil)) lp iv) kids) := by
  rw [hoist]
theorem kidsOfD_el (n : Str) (ws : Bool) (a : AttrList) (k : NodeList) : kidsOfD (.El n ws a k) = k := by rw [kidsOfD]
theorem newHead_el (env : Env) (n : Str) (ws : Bool) (a : AttrList) (k : NodeList) (ds : DepList) (lp : OptStr) (iv : Bool) :
    newHead env (.El n ws a k) ds lp iv = .El n ws a (.NCons metaCharset (nappend k (headExtra env ds lp iv))) := by
  rw [newHead]
theorem isHeadTag_newHead (env : Env) (h : Node) (ds : DepList) (lp : OptStr) (iv : Bool) :
    isHeadTag (newHead env h ds lp iv) = isHeadTag h := by
  cases h <;> simp [newHead, isHeadTag]
theorem isHeadTag_emptyHead : isHeadTag emptyHead = true := by
  rw [emptyHead, isHeadTag_el]; decide
theorem isNamed_el (n : Str) (ws : Bool) (a : AttrList) (k : NodeList) (nm : Str) :
    isNamed (.El n ws a k) nm = (n == nm) := by rw [isNamed]
theorem isNamed_hoist_el (env : Env) (n : Str) (ws : Bool) (a : AttrList) (kids : NodeList) (lp : OptStr) (iv : Bool) (nm : Str) :
    isNamed (hoist env (.El n ws a kids) lp iv) nm = (n == nm) := by
  rw [hoist_el]
  cases hasHead kids <;> simp [isNamed_el]
theorem soleTag_true (content : NodeList) (nm : Str) (h : soleTag content nm = true) :
    ∃ ws a k, content = .NCons (.El nm ws a k) .NNil := by
  cases content with
  | NNil => simp [soleTag] at h
  | NCons c r =>
    cases r with
    | NCons c2 r2 => simp [soleTag] at h
    | NNil =>
      cases c <;> simp [soleTag, isNamed] at h
      subst h
      exact ⟨_, _, _, rfl⟩

/-! ### the root -/
/-- the result is a single <html> element -/
theorem C11_root_is_html (cfg : Cfg) (env : Env) (content : NodeList) (attrs : ArgDict) (lp : OptStr) (iv : Bool) :
    isNamed (docTree cfg env content attrs lp iv) ([104,116,109,108] : Str) = true := by
  rw [docTree]
  cases h1 : soleTag content ([104,116,109,108] : Str)
  · cases h2 : soleTag content ([98, 111, 100, 121] : Str)
    · simp [isNamed_hoist_el]
    · simp [isNamed_hoist_el]
  · obtain ⟨ws, a, k, rfl⟩ := soleTag_true _ _ h1
    simp [soleOf, tagifyT, withAttrsD, isNamed_hoist_el]

/-! ### the head -/
def countHead (l : NodeList) : Nat := ((nlToList' l).filter (fun c => isHeadTag c)).length

theorem countHead_nil : countHead .NNil = 0 := rfl
theorem countHead_cons (c : Node) (r : NodeList) :
    countHead (.NCons c r) = (if isHeadTag c then 1 else 0) + countHead r := by
  cases hc : isHeadTag c <;> simp [countHead, nlToList', hc] <;> omega
theorem countHead_noHead (l : NodeList) (h : hasHead l = false) : countHead l = 0 :=
  match l, h with
  | .NNil, _ => countHead_nil
  | .NCons c r, h => by
    rw [hasHead_cons] at h
    have h' := bool_or_false h
    rw [countHead_cons, h'.1, countHead_noHead r h'.2]; rfl
theorem countHead_replace (l : NodeList) (v : Node) (hv : isHeadTag v = true) :
    countHead (replaceFirstHead l v) = countHead l :=
  match l with
  | .NNil => by rw [replaceFirstHead_nil]
  | .NCons c r => by
    rw [replaceFirstHead_cons]
    cases hc : isHeadTag c
    · simp [countHead_cons, hc, countHead_replace r v hv]
    · simp [countHead_cons, hc, hv]

/-- hoisting never adds a second head: a tree with a head keeps its heads, a tree without gets exactly one -/
theorem C11_head_count (env : Env) (n : Str) (ws : Bool) (a : AttrList) (kids : NodeList) (lp : OptStr) (iv : Bool) :
    countHead (kidsOfD (hoist env (.El n ws a kids) lp iv)) = (if hasHead kids then countHead kids else 1) := by
  rw [hoist_el]
  cases hh : hasHead kids
  · simp [kidsOfD_el, countHead_cons, isHeadTag_newHead, isHeadTag_emptyHead, countHead_noHead kids hh]
  · have hv : isHeadTag (newHead env (firstHead kids) (resolve (collectL kids .DLNil)) lp iv) = true := by
      rw [isHeadTag_newHead]; exact first_is_head kids hh
    simp [kidsOfD_el, hoistKids, countHead_replace _ _ hv]
/-- the documents built around a fragment or a lone <body> have exactly one head -/
theorem C11_one_head_generated (cfg : Cfg) (env : Env) (content : NodeList) (attrs : ArgDict) (lp : OptStr) (iv : Bool)
    (h : soleTag content ([104,116,109,108] : Str) = false) :
    countHead (kidsOfD (docTree cfg env content attrs lp iv)) = 1 := by
  rw [docTree, h]
  cases h2 : soleTag content ([98, 111, 100, 121] : Str)
  · simp only [Bool.false_eq_true, if_false]
    rw [C11_head_count]
    simp [hasHead_cons, isHeadTag_emptyHead, countHead_cons, countHead_nil, isHeadTag_el]
  · obtain ⟨ws, a, k, rfl⟩ := soleTag_true _ _ h2
    simp only [Bool.false_eq_true, if_false, if_true]
    rw [C11_head_count]
    simp [hasHead_cons, isHeadTag_emptyHead, countHead_cons, countHead_nil, isHeadTag_el, soleOf, tagifyT]

theorem firstHead_replace (l : NodeList) (v : Node) (hl : hasHead l = true) (hv : isHeadTag v = true) :
    firstHead (replaceFirstHead l v) = v :=
  match l, hl with
  | .NNil, hl => by rw [hasHead_nil] at hl; contradiction
  | .NCons c r, hl => by
    rw [hasHead_cons] at hl
    rw [replaceFirstHead_cons]
    cases hc : isHeadTag c
    · rw [hc] at hl
      simp at hl
      simp [firstHead_cons, hc]
      exact firstHead_replace r v hl hv
    · simp [firstHead_cons, hv]

/-- the (first) head after hoisting: <meta charset="utf-8"/> first, the head's own content in order, then the listing
(when there are dependencies) and every dependency's markup -/
theorem C11_head_content (env : Env) (n : Str) (ws : Bool) (a : AttrList) (kids : NodeList) (lp : OptStr) (iv : Bool) :
    kidsOfD (firstHead (kidsOfD (hoist env (.El n ws a kids) lp iv))) =
      .NCons metaCharset (nappend (if hasHead kids then kidsOfD (firstHead kids) else .NNil)
        (headExtra env (resolve (collectL kids .DLNil)) lp iv)) := by
  rw [hoist_el]
  cases hh : hasHead kids
  · simp only [Bool.false_eq_true, if_false]
    rw [kidsOfD_el, firstHead_cons, isHeadTag_newHead, isHeadTag_emptyHead, if_pos rfl, emptyHead, newHead_el, kidsOfD_el]
  · simp only [if_true]
    have hf := first_is_head kids hh
    have hv : isHeadTag (newHead env (firstHead kids) (resolve (collectL kids .DLNil)) lp iv) = true := by
      rw [isHeadTag_newHead]; exact hf
    rw [kidsOfD_el, hoistKids, firstHead_replace _ _ hh hv]
    cases hk : firstHead kids with
    | El n2 ws2 a2 k2 => rw [newHead_el, kidsOfD_el, kidsOfD_el]
    | _ => rw [hk] at hf; simp [isHeadTag] at hf

/-- everything except the first head is left exactly as it was, in the same order -/
theorem C11_rest_untouched (l : NodeList) (v : Node) (h : hasHead l = true) :
    ∃ before after, nlToList' l = before ++ [firstHead l] ++ after ∧ nlToList' (replaceFirstHead l v) = before ++ [v] ++ after ∧
      ∀ c ∈ before, isHeadTag c = false :=
  match l, h with
  | .NNil, h => by rw [hasHead_nil] at h; contradiction
  | .NCons c r, h => by
    rw [hasHead_cons] at h
    rw [replaceFirstHead_cons, firstHead_cons]
    cases hc : isHeadTag c
    · rw [hc] at h
      simp at h
      obtain ⟨b, af, h1, h2, h3⟩ := C11_rest_untouched r v h
      refine ⟨c :: b, af, ?_, ?_, ?_⟩
      · simp [nlToList'_cons, h1]
      · simp [nlToList'_cons, h2]
      · intro x hx
        cases hx with
        | head => exact hc
        | tail _ hx => exact h3 x hx
    · refine ⟨[], nlToList' r, ?_, ?_, ?_⟩
      · simp [nlToList'_cons]
      · simp [nlToList'_cons]
      · intro x hx; cases hx

theorem nlToList'_nappend (a b : NodeList) : nlToList' (nappend a b) = nlToList' a ++ nlToList' b :=
  match a with
  | .NNil => by rw [nappend_nil_left]; rfl
  | .NCons c r => by rw [nappend_cons, nlToList'_cons, nlToList'_cons, nlToList'_nappend r b]; rfl

/-- each dependency's markup appears exactly once, in resolved order -/
theorem C11_each_dep_once (env : Env) (ds : DepList) (lp : OptStr) (iv : Bool) :
    nlToList' (depTagsAll env ds lp iv) = (dlToList ds).flatMap (fun d => nlToList' (env.depTags d lp iv)) :=
  match ds with
  | .DLNil => by rw [depTagsAll]; rfl
  | .DLCons d r => by
    rw [depTagsAll, nlToList'_nappend, C11_each_dep_once env r lp iv]
    simp [dlToList]
/-- the listing names name[version] of every resolved dependency, in order; there is no listing without dependencies -/
def slToList : StrList → List Str
  | .SNil => []
  | .SCons x r => x :: slToList r
theorem C11_listing (env : Env) (ds : DepList) :
    slToList (depLabels env ds) = (dlToList ds).map (fun d => d.name ++ [91] ++ env.verStr d.ver ++ [93]) :=
  match ds with
  | .DLNil => by rw [depLabels]; rfl
  | .DLCons d r => by
    rw [depLabels]
    simp [slToList, dlToList, depLabel, C11_listing env r]
theorem C11_no_listing_without_deps (env : Env) (lp : OptStr) (iv : Bool) : headExtra env .DLNil lp iv = .NNil := by
  simp [headExtra, dlNonEmpty, depTagsAll]

/-! ### the returned dependency list -/
theorem collect_nappend (a b : NodeList) (acc : DepList) : collectL (nappend a b) acc = collectL b (collectL a acc) :=
  match a with
  | .NNil => by rw [nappend_nil_left, collectL_nil]
  | .NCons c r => by rw [nappend_cons, collectL_cons, collectL_cons, collect_nappend r b]

theorem collect_depTagsAll (env : Env) (ds : DepList) (lp : OptStr) (iv : Bool)
    (hd : ∀ d, collectL (env.depTags d lp iv) .DLNil = .DLNil) :
    collectL (depTagsAll env ds lp iv) .DLNil = .DLNil :=
  match ds with
  | .DLNil => by rw [depTagsAll, collectL_nil]
  | .DLCons d r => by
    rw [depTagsAll, C10_collect_append, hd, collect_depTagsAll env r lp iv hd, dappend_nil]
theorem collect_headExtra (env : Env) (ds : DepList) (lp : OptStr) (iv : Bool)
    (hd : ∀ d, collectL (env.depTags d lp iv) .DLNil = .DLNil) :
    collectL (headExtra env ds lp iv) .DLNil = .DLNil := by
  rw [headExtra]
  cases dlNonEmpty ds
  · simp only [Bool.false_eq_true, if_false]
    exact collect_depTagsAll env ds lp iv hd
  · simp only [if_true]
    rw [collectL_cons_nil, listingTag, collectStep_el, collectL_cons, collectStep_other _ _ (by simp) (by simp), collectL_nil,
      collect_depTagsAll env ds lp iv hd]
    rfl
theorem collectStep_newHead (env : Env) (h : Node) (ds : DepList) (lp : OptStr) (iv : Bool) (acc : DepList)
    (hd : ∀ d, collectL (env.depTags d lp iv) .DLNil = .DLNil) :
    collectStep acc (newHead env h ds lp iv) = collectStep acc h := by
  cases h with
  | El n ws a k =>
    rw [newHead_el, collectStep_el, collectStep_el, collectL_cons_nil, metaCharset, collectStep_el, collectL_nil,
      C10_collect_append, collect_headExtra env ds lp iv hd, dappend_nil, dappend_nil_left, dappend_nil]
  | _ => simp [newHead]
theorem collect_replace (l : NodeList) (v : Node) (acc : DepList)
    (hv : ∀ acc, collectStep acc v = collectStep acc (firstHead l)) :
    collectL (replaceFirstHead l v) acc = collectL l acc :=
  match l, hv with
  | .NNil, _ => by rw [replaceFirstHead_nil]
  | .NCons c r, hv => by
    rw [replaceFirstHead_cons]
    rw [firstHead_cons] at hv
    cases hc : isHeadTag c
    · rw [hc] at hv
      simp only [Bool.false_eq_true, if_false] at hv ⊢
      rw [collectL_cons, collectL_cons, collect_replace r v _ hv]
    · rw [hc] at hv
      simp only [if_true] at hv ⊢
      rw [collectL_cons, collectL_cons, hv]

/-- provided the markup of a dependency carries no further dependency, hoisting does not change what is collected, so the list
returned by render() is exactly the resolved list that was hoisted -/
theorem C11_returned_deps (env : Env) (n : Str) (ws : Bool) (a : AttrList) (kids : NodeList) (lp : OptStr) (iv : Bool)
    (hd : ∀ d, collectL (env.depTags d lp iv) .DLNil = .DLNil) :
    collectL (kidsOfD (hoist env (.El n ws a kids) lp iv)) .DLNil = collectL kids .DLNil := by
  rw [hoist_el]
  cases hh : hasHead kids
  · simp only [Bool.false_eq_true, if_false]
    rw [kidsOfD_el, collectL_cons, collectStep_newHead _ _ _ _ _ _ hd, emptyHead, collectStep_el, collectL_nil]
    rfl
  · simp only [if_true]
    rw [kidsOfD_el, hoistKids, collect_replace]
    intro acc
    exact collectStep_newHead _ _ _ _ _ _ hd

/-! ### render -/
theorem C11_doctype (cfg : Cfg) (env : Env) (content : NodeList) (attrs : ArgDict) (lp : OptStr) (iv : Bool) :
    ∃ rest, (docRender cfg env content attrs lp iv).html = ([60,33,68,79,67,84,89,80,69,32,104,116,109,108,62,10] : Str) ++ rest := by
  rw [docRender]
  exact ⟨_, rfl⟩

#print axioms first_is_head
#print axioms replace_first_same
#print axioms nodes_one
#print axioms bad_one
#print axioms nodes_depTagChildren
#print axioms bad_depTagChildren
#print axioms C11_root_is_html
#print axioms C11_head_count
#print axioms C11_one_head_generated
#print axioms C11_head_content
#print axioms C11_rest_untouched
#print axioms C11_each_dep_once
#print axioms C11_listing
#print axioms C11_no_listing_without_deps
#print axioms collect_nappend
#print axioms C11_returned_deps
#print axioms C11_doctype

end HV
