/-
C07 — metadata nodes leave no trace in the markup.
Statements are fixed (taken from the property); only proofs may be edited.  Definitions `strip`,
`stripL`, `rtag`, `rlist`, `rlistTop`, `hasObT`, `hasObL` come from the generated HV.Spec.
-/
import HV.RenderBase
namespace HV

/-! ### equation lemmas for the mutual blocks -/
theorem strip_el (n ws a kids) : strip (.El n ws a kids) = .El n ws a (stripL kids) := by rw [strip]
theorem strip_txt (s) : strip (.Txt s) = .Txt s := by rw [strip]; intros; contradiction
theorem strip_raw (s) : strip (.Raw s) = .Raw s := by rw [strip]; intros; contradiction
theorem strip_md (d) : strip (.Md d) = .Md d := by rw [strip]; intros; contradiction
theorem strip_rp (s o) : strip (.Rp s o) = .Rp s o := by rw [strip]; intros; contradiction
theorem strip_ob (o) : strip (.Ob o) = .Ob o := by rw [strip]; intros; contradiction
theorem stripL_nil : stripL .NNil = .NNil := by rw [stripL]
theorem stripL_cons (c r) : stripL (.NCons c r) =
    (if isMeta c then stripL r else .NCons (strip c) (stripL r)) := by rw [stripL]

theorem hasObT_el (n ws a kids) : hasObT (.El n ws a kids) = (generalPath (nonMeta kids) && hasObL kids) := by
  rw [hasObT]
theorem hasObT_txt (s) : hasObT (.Txt s) = false := by rw [hasObT]; intros; contradiction
theorem hasObT_raw (s) : hasObT (.Raw s) = false := by rw [hasObT]; intros; contradiction
theorem hasObT_md (d) : hasObT (.Md d) = false := by rw [hasObT]; intros; contradiction
theorem hasObT_rp (s o) : hasObT (.Rp s o) = false := by rw [hasObT]; intros; contradiction
theorem hasObT_ob (o) : hasObT (.Ob o) = false := by rw [hasObT]; intros; contradiction
theorem hasObL_nil : hasObL .NNil = false := by rw [hasObL]
theorem hasObL_cons (c r) : hasObL (.NCons c r) = (isOb c || hasObT c || hasObL r) := by rw [hasObL]

theorem isMeta_strip (c : Node) : isMeta (strip c) = isMeta c := by
  cases c <;> simp [strip_el, strip_txt, strip_raw, strip_md, strip_rp, strip_ob, isMeta]

theorem isOb_strip (c : Node) : isOb (strip c) = isOb c := by
  cases c <;> simp [strip_el, strip_txt, strip_raw, strip_md, strip_rp, strip_ob, isOb]

theorem isMeta_eq_md (c : Node) (h : isMeta c = true) : ∃ d, c = .Md d := by
  cases c <;> simp_all [isMeta]

/-- nonMeta commutes with strip on lists, up to mapping strip -/
def mapStrip : NodeList → NodeList
  | .NNil => .NNil
  | .NCons c r => .NCons (strip c) (mapStrip r)

theorem nonMeta_stripL : (l : NodeList) → nonMeta (stripL l) = mapStrip (nonMeta l)
  | .NNil => by simp [stripL_nil, nonMeta, mapStrip]
  | .NCons c r => by
    have ih := nonMeta_stripL r
    simp only [stripL_cons, nonMeta]
    split
    · exact ih
    · rename_i h; simp [nonMeta, isMeta_strip, h, mapStrip, ih]

/-- tagFrame only looks at the shape of ks that strip preserves -/
theorem tagFrame_mapStrip (cfg n ws op) (ks : NodeList) (inner i eol) :
    tagFrame cfg n ws op (mapStrip ks) inner i eol = tagFrame cfg n ws op ks inner i eol := by
  cases ks with
  | NNil => simp [mapStrip, tagFrame]
  | NCons c r =>
    cases r with
    | NNil => cases c <;> simp [mapStrip, strip_el, strip_txt, strip_raw, strip_md, strip_rp, strip_ob, tagFrame]
    | NCons c2 r2 => cases c <;> simp [mapStrip, strip_el, strip_txt, strip_raw, strip_md, strip_rp, strip_ob, tagFrame]

theorem generalPath_mapStrip (ks : NodeList) : generalPath (mapStrip ks) = generalPath ks := by
  cases ks with
  | NNil => simp [mapStrip, generalPath]
  | NCons c r =>
    cases r with
    | NNil => cases c <;> simp [mapStrip, strip_el, strip_txt, strip_raw, strip_md, strip_rp, strip_ob, generalPath]
    | NCons c2 r2 => cases c <;> simp [mapStrip, strip_el, strip_txt, strip_raw, strip_md, strip_rp, strip_ob, generalPath]

theorem rl_step_strip (cfg st c x y i eol e) (h : isMeta c = false) :
    rl_step cfg st (strip c) x y i eol e = rl_step cfg st c x y i eol e := by
  cases c <;> simp_all [strip_el, strip_txt, strip_raw, strip_rp, strip_ob, rl_step, isMeta]

mutual
theorem rtag_strip (cfg : Cfg) : (t : Node) → (i : Nat) → (eol : Str) → rtag cfg (strip t) i eol = rtag cfg t i eol
  | .Txt s, i, eol => by rw [strip_txt]
  | .Raw s, i, eol => by rw [strip_raw]
  | .Rp s o, i, eol => by rw [strip_rp]
  | .Md d, i, eol => by rw [strip_md]
  | .Ob o, i, eol => by rw [strip_ob]
  | .El n ws a kids, i, eol => by
    simp only [strip_el, rtag_el, nonMeta_stripL, tagFrame_mapStrip, rlist_strip cfg kids]
theorem rlist_strip (cfg : Cfg) : (l : NodeList) → (st : St) → (i : Nat) → (eol : Str) → (e : Bool) →
    rlist cfg (stripL l) st i eol e = rlist cfg l st i eol e
  | .NNil, st, i, eol, e => by rw [stripL_nil]
  | .NCons c r, st, i, eol, e => by
    have ihr := rlist_strip cfg r
    have ihc := rtag_strip cfg c
    simp only [stripL_cons]
    split
    · rename_i h
      obtain ⟨d, hd⟩ := isMeta_eq_md c h
      subst hd
      simp only [rlist_cons, rl_step]
      exact ihr st i eol e
    · rename_i h
      simp only [rlist_cons, ihc, rl_step_strip cfg _ _ _ _ _ _ _ (by simpa using h)]
      exact ihr _ i eol e
end

mutual
theorem hasObT_strip : (t : Node) → hasObT (strip t) = hasObT t
  | .Txt s => by rw [strip_txt]
  | .Raw s => by rw [strip_raw]
  | .Rp s o => by rw [strip_rp]
  | .Md d => by rw [strip_md]
  | .Ob o => by rw [strip_ob]
  | .El n ws a kids => by
    rw [strip_el, hasObT_el, hasObT_el, nonMeta_stripL, generalPath_mapStrip, hasObL_strip kids]
theorem hasObL_strip : (l : NodeList) → hasObL (stripL l) = hasObL l
  | .NNil => by rw [stripL_nil]
  | .NCons c r => by
    have ihr := hasObL_strip r
    have ihc := hasObT_strip c
    simp only [stripL_cons]
    split
    · rename_i h
      obtain ⟨d, hd⟩ := isMeta_eq_md c h
      subst hd
      simp [hasObL_cons, hasObT_md, isOb, ihr]
    · simp [hasObL_cons, isOb_strip, ihc, ihr]
end

/-- C07 (tags): two trees that differ only in metadata nodes — any number, at any positions, at any
depth — produce the same markup for every indent and eol, and raise in exactly the same cases. -/
theorem C07_metadata_invisible (cfg : Cfg) (t1 t2 : Node) (h : strip t1 = strip t2) (i : Nat) (eol : Str) :
    rtag cfg t1 i eol = rtag cfg t2 i eol ∧ hasObT t1 = hasObT t2 := by
  constructor
  · rw [← rtag_strip cfg t1, ← rtag_strip cfg t2, h]
  · rw [← hasObT_strip t1, ← hasObT_strip t2, h]

/-- C07 (lists) -/
theorem C07_metadata_invisible_list (cfg : Cfg) (l1 l2 : NodeList) (h : stripL l1 = stripL l2)
    (i : Nat) (eol : Str) (ws e : Bool) :
    rlistTop cfg l1 i eol ws e = rlistTop cfg l2 i eol ws e ∧ hasObL l1 = hasObL l2 := by
  constructor
  · simp only [rlistTop]
    rw [← rlist_strip cfg l1, ← rlist_strip cfg l2, h]
  · rw [← hasObL_strip l1, ← hasObL_strip l2, h]

mutual
theorem strip_idem_aux : (t : Node) → strip (strip t) = strip t
  | .Txt s => by simp only [strip_txt]
  | .Raw s => by simp only [strip_raw]
  | .Rp s o => by simp only [strip_rp]
  | .Md d => by simp only [strip_md]
  | .Ob o => by simp only [strip_ob]
  | .El n ws a kids => by
    rw [strip_el, strip_el, stripL_idem_aux kids]
theorem stripL_idem_aux : (l : NodeList) → stripL (stripL l) = stripL l
  | .NNil => by simp only [stripL_nil]
  | .NCons c r => by
    have ihr := stripL_idem_aux r
    have ihc := strip_idem_aux c
    rw [stripL_cons]
    split
    · exact ihr
    · rename_i h
      rw [stripL_cons, isMeta_strip, if_neg h, ihc, ihr]
end

/-- removing is a special case: the stripped tree renders like the original -/
theorem C07_strip_idem : (t : Node) → strip (strip t) = strip t := strip_idem_aux

#print axioms C07_metadata_invisible
#print axioms C07_metadata_invisible_list
#print axioms C07_strip_idem
end HV
