/-
C12 — the file a dependency URL names is the file that was copied (path algebra).
`pjoin` is posixpath.join (HV/Prim.lean).  save_html copies into  join(join(dir, libdir), name[-version])/f  and writes the URL
join(join(libdir, name[-version]), quote f); resolved against the file's directory `dir` and percent-decoded (quote f ↦ f) that URL
names  join(dir, join(join(libdir, name[-version]), f)).  The two are the same path when libdir, the directory name and f are
relative (do not start with '/') and libdir and the directory name are non-empty.
-/
import HV.Spec
namespace HV

def isRel (s : Str) : Prop := s.head? ≠ some 47

theorem head_app (x y : Str) (h : x ≠ []) : (x ++ y).head? = x.head? := by
  cases x with
  | nil => exact absurd rfl h
  | cons a t => rfl

theorem last_app (x y : Str) (h : y ≠ []) : (x ++ y).getLast? = y.getLast? := by
  induction x with
  | nil => rfl
  | cons a t ih =>
    have hne : t ++ y ≠ [] := by
      intro e; cases t with
      | nil => exact h e
      | cons _ _ => cases e
    cases hty : t ++ y with
    | nil => exact absurd hty hne
    | cons c u =>
      rw [← ih, List.cons_append, hty, List.getLast?_cons_cons]

theorem app_ne_nil_right (x y : Str) (h : y ≠ []) : x ++ y ≠ [] := by
  intro e; cases x with
  | nil => exact h e
  | cons _ _ => cases e

theorem app_ne_nil_left (x y : Str) (h : x ≠ []) : x ++ y ≠ [] := by
  intro e; cases x with
  | nil => exact h rfl
  | cons _ _ => cases e

/-- value of a join with a relative second part -/
theorem pjoin_rel_eq (a b : Str) (hb : isRel b) :
    pjoin a b = if a = [] ∨ a.getLast? = some 47 then a ++ b else a ++ [47] ++ b := by
  unfold pjoin; rw [if_neg hb]

theorem pjoin_ne_nil (a b : Str) (hb : isRel b) (hb0 : b ≠ []) : pjoin a b ≠ [] := by
  rw [pjoin_rel_eq a b hb]
  split
  · exact app_ne_nil_right _ _ hb0
  · exact app_ne_nil_right _ _ hb0

theorem pjoin_last (a b : Str) (hb : isRel b) (hb0 : b ≠ []) : (pjoin a b).getLast? = b.getLast? := by
  rw [pjoin_rel_eq a b hb]
  split
  · exact last_app _ _ hb0
  · exact last_app _ _ hb0

/-- a join of a non-empty relative part with a relative part is relative -/
theorem pjoin_isRel (a b : Str) (ha : isRel a) (ha0 : a ≠ []) (hb : isRel b) : isRel (pjoin a b) := by
  unfold isRel
  rw [pjoin_rel_eq a b hb]
  split
  · rw [head_app _ _ ha0]; exact ha
  · rw [List.append_assoc, head_app _ _ ha0]; exact ha

theorem pjoin_ne_nil_left (a b : Str) (ha0 : a ≠ []) (hb : isRel b) : pjoin a b ≠ [] := by
  rw [pjoin_rel_eq a b hb]
  split
  · exact app_ne_nil_left _ _ ha0
  · rw [List.append_assoc]; exact app_ne_nil_left _ _ ha0

/-- joining relative parts is associative -/
theorem C12_pjoin_assoc (a b c : Str) (hb : isRel b) (hc : isRel c) (hb0 : b ≠ []) :
    pjoin (pjoin a b) c = pjoin a (pjoin b c) := by
  have hbc : isRel (pjoin b c) := pjoin_isRel b c hb hb0 hc
  have hl : (pjoin a b).getLast? = b.getLast? := pjoin_last a b hb hb0
  have hne : pjoin a b ≠ [] := pjoin_ne_nil a b hb hb0
  rw [pjoin_rel_eq (pjoin a b) c hc, pjoin_rel_eq a (pjoin b c) hbc, hl, pjoin_rel_eq b c hc,
    pjoin_rel_eq a b hb]
  by_cases h1 : b.getLast? = some 47 <;> by_cases h2 : a = [] ∨ a.getLast? = some 47 <;>
    simp only [h1, h2, hb0, if_true, if_false, or_true, or_false, List.append_assoc,
      app_ne_nil_right _ _ hb0, app_ne_nil_right a ([47] ++ b) (app_ne_nil_right _ _ hb0)]

/-- the copy target equals the file named by the URL, resolved against the file's directory -/
theorem C12_copy_target_is_url_target (dir libdir dirn f : Str)
    (h1 : isRel libdir) (h2 : isRel dirn) (h3 : isRel f) (n1 : libdir ≠ []) (_n2 : dirn ≠ []) :
    pjoin (pjoin (pjoin dir libdir) dirn) f = pjoin dir (pjoin (pjoin libdir dirn) f) := by
  rw [C12_pjoin_assoc dir libdir dirn h1 h2 n1]
  exact C12_pjoin_assoc dir (pjoin libdir dirn) f (pjoin_isRel libdir dirn h1 n1 h2) h3
    (pjoin_ne_nil_left libdir dirn n1 h2)

/-- without a lib directory -/
theorem C12_copy_target_is_url_target_nolib (dir dirn f : Str) (h2 : isRel dirn) (h3 : isRel f) (n2 : dirn ≠ []) :
    pjoin (pjoin dir dirn) f = pjoin dir (pjoin dirn f) :=
  C12_pjoin_assoc dir dirn f h2 h3 n2

/-- URL shape for a local source: prefix/name[-version]/encoded path (when the prefix does not end with '/', the name is relative) -/
-- STATEMENT CHANGED: added `hn2` (the directory name does not end with '/').  Without it the statement is false:
-- p = "b", iv = false, name = "a/" (so depDirName = "a/", relative and non-empty), quoteUrl path = "x" give
-- fileUrl = pjoin (pjoin "b" "a/") "x" = "b/a/x", whereas the right-hand side is "b/a//x" (posixpath.join adds no
-- second slash after a part that already ends with one).  The unused `cfg` parameter is dropped.
theorem C12_local_url_shape (env : Env) (name : Str) (ver : Int) (p path : Str) (iv : Bool)
    (hp : p ≠ []) (hp2 : p.getLast? ≠ some 47)
    (hn : isRel (depDirName env name ver iv)) (hn0 : depDirName env name ver iv ≠ [])
    (hn2 : (depDirName env name ver iv).getLast? ≠ some 47) (hq : isRel (env.quoteUrl path)) :
    fileUrl env (srcHref env name ver (.SomeStr p) iv) path = p ++ [47] ++ depDirName env name ver iv ++ [47] ++ env.quoteUrl path := by
  have hpe : (p == ([] : Str)) = false := by
    cases p with
    | nil => exact absurd rfl hp
    | cons _ _ => rfl
  have hl : (pjoin p (depDirName env name ver iv)).getLast? ≠ some 47 := by
    rw [pjoin_last p _ hn hn0]; exact hn2
  have hne : pjoin p (depDirName env name ver iv) ≠ [] := pjoin_ne_nil p _ hn hn0
  unfold fileUrl srcHref
  simp only [hpe, Bool.false_eq_true, if_false]
  have c1 : ¬(pjoin p (depDirName env name ver iv) = [] ∨
      (pjoin p (depDirName env name ver iv)).getLast? = some 47) := fun h => h.elim hne hl
  have c2 : ¬(p = [] ∨ p.getLast? = some 47) := fun h => h.elim hp hp2
  rw [pjoin_rel_eq _ _ hq, if_neg c1, pjoin_rel_eq _ _ hn, if_neg c2]

/-- the counterexample to the original statement of `C12_local_url_shape` (directory name ending with '/') -/
theorem C12_local_url_shape_counterexample :
    pjoin (pjoin [98] [97, 47]) [120] = [98, 47, 97, 47, 120] ∧
    pjoin (pjoin [98] [97, 47]) [120] ≠ [98] ++ [47] ++ [97, 47] ++ [47] ++ [120] := by
  decide

#print axioms C12_pjoin_assoc
#print axioms C12_copy_target_is_url_target
#print axioms C12_copy_target_is_url_target_nolib
#print axioms C12_local_url_shape
end HV
