/-
C05 — no whitespace is ever injected into inline content.  Statements fixed; proofs to be supplied.
-/
import HV.RenderBase
namespace HV

/-! ### equation lemmas for the mutual blocks -/
theorem flat_el (cfg e n ws a kids) : flat cfg e (.El n ws a kids) =
    flatFrame cfg n a (nonMeta kids) (flatL cfg (!cfg.noEsc n) kids) := by rw [flat]
theorem flat_txt (cfg e s) : flat cfg e (.Txt s) = (if e then cfg.escT s else s) := by rw [flat]
theorem flat_raw (cfg e s) : flat cfg e (.Raw s) = s := by rw [flat]
theorem flat_rp (cfg e s o) : flat cfg e (.Rp s o) = s := by rw [flat]
theorem flat_md (cfg e d) : flat cfg e (.Md d) = [] := by rw [flat]
theorem flat_ob (cfg e o) : flat cfg e (.Ob o) = [] := by rw [flat]
theorem flatL_cons (cfg e c r) : flatL cfg e (.NCons c r) = flat cfg e c ++ flatL cfg e r := by rw [flatL]
theorem flatL_nil (cfg e) : flatL cfg e .NNil = [] := by rw [flatL]

theorem allInline_el (n ws a kids) : allInline (.El n ws a kids) = (!ws && allInlineL kids) := by rw [allInline]
theorem allInline_ob (o) : allInline (.Ob o) = false := by rw [allInline]
theorem allInlineL_nil : allInlineL .NNil = true := by rw [allInlineL]
theorem allInlineL_cons (c r) : allInlineL (.NCons c r) = (allInline c && allInlineL r) := by rw [allInlineL]

theorem isMeta_eq_md' (c : Node) (h : isMeta c = true) : ∃ d, c = .Md d := by
  cases c <;> simp_all [isMeta]

theorem flatL_nonMeta (cfg : Cfg) (e : Bool) : (l : NodeList) → flatL cfg e (nonMeta l) = flatL cfg e l
  | .NNil => by simp [nonMeta]
  | .NCons c r => by
    have ih := flatL_nonMeta cfg e r
    simp only [nonMeta]
    split
    · rename_i h
      obtain ⟨d, hd⟩ := isMeta_eq_md' c h
      subst hd; simp [flatL_cons, flat_md, ih]
    · simp [flatL_cons, ih]

theorem tagFrame_inline (cfg : Cfg) (n : Str) (a : AttrList) (ks : NodeList) (i : Nat) (eol : Str) :
    tagFrame cfg n false (attrFold cfg a (ind i ++ [60] ++ n)) ks (flatL cfg (!cfg.noEsc n) ks) i eol
      = ind i ++ flatFrame cfg n a ks (flatL cfg (!cfg.noEsc n) ks) := by
  rw [attrFold_eq]
  cases ks with
  | NNil => simp only [tagFrame, flatFrame, opn]; split <;> simp [List.append_assoc]
  | NCons c r =>
    cases r with
    | NNil =>
      cases c <;> simp [tagFrame, flatFrame, opn, flatL_cons, flatL_nil, flat_txt, flat_raw, flat_rp, flat_md,
        flat_ob, List.append_assoc]
      cases cfg.noEsc n <;> simp
    | NCons c2 r2 =>
      cases c <;> simp [tagFrame, flatFrame, opn, List.append_assoc]

mutual
/-- (a) a subtree with no whitespace-enabled tag renders as the exact concatenation of its open tags,
content and close tags (after the indentation prefix of its own position), for every indent and eol -/
theorem C05_flat_inline_tag (cfg : Cfg) : (t : Node) → (i : Nat) → (eol : Str) →
    isEl t = true → allInline t = true → rtag cfg t i eol = ind i ++ flat cfg true t
  | .El n ws a kids, i, eol, _, h => by
    simp only [allInline_el, Bool.and_eq_true, Bool.not_eq_true'] at h
    obtain ⟨hws, hk⟩ := h
    subst hws
    have hl := C05_flat_inline_list cfg kids ⟨[], true, false⟩ (i+1) eol (!cfg.noEsc n) hk rfl
    rw [rtag_el, hl, flat_el]
    simp only [List.nil_append]
    rw [← flatL_nonMeta cfg _ kids]
    exact tagFrame_inline cfg n a (nonMeta kids) i eol
  | .Txt _, _, _, h, _ => by simp [isEl] at h
  | .Raw _, _, _, h, _ => by simp [isEl] at h
  | .Rp _ _, _, _, h, _ => by simp [isEl] at h
  | .Md _, _, _, h, _ => by simp [isEl] at h
  | .Ob _, _, _, h, _ => by simp [isEl] at h
theorem C05_flat_inline_list (cfg : Cfg) : (l : NodeList) → (st : St) → (i : Nat) → (eol : Str) → (e : Bool) →
    allInlineL l = true → st.prev = false → (rlist cfg l st i eol e).html = st.html ++ flatL cfg e l
  | .NNil, st, i, eol, e, _, _ => by simp [rlist_nil, flatL_nil]
  | .NCons c r, st, i, eol, e, h, hp => by
    simp only [allInlineL_cons, Bool.and_eq_true] at h
    rw [rlist_cons, flatL_cons]
    match c, h with
    | .Md d, h =>
      simp only [rl_step]
      rw [C05_flat_inline_list cfg r st i eol e h.2 hp]; simp [flat_md]
    | .Ob o, h =>
      have := h.1; simp [allInline_ob] at this
    | .Txt s, h =>
      rw [C05_flat_inline_list cfg r _ i eol e h.2 (by simp [rl_step])]
      simp [rl_step, sep, lead, hp, flat_txt, List.append_assoc]
    | .Raw s, h =>
      rw [C05_flat_inline_list cfg r _ i eol e h.2 (by simp [rl_step])]
      simp [rl_step, sep, lead, hp, flat_raw, List.append_assoc]
    | .Rp s o, h =>
      rw [C05_flat_inline_list cfg r _ i eol e h.2 (by simp [rl_step])]
      simp [rl_step, sep, lead, hp, flat_rp, List.append_assoc]
    | .El n ws a kids, h =>
      have hws : ws = false := by
        have := h.1; simp only [allInline_el, Bool.and_eq_true, Bool.not_eq_true'] at this; exact this.1
      have ht := C05_flat_inline_tag cfg (.El n ws a kids) 0 [] rfl h.1
      rw [C05_flat_inline_list cfg r _ i eol e h.2 (by simp [rl_step, hws])]
      simp only [ind_zero, List.nil_append] at ht
      rw [hws] at ht
      simp [rl_step, sep, hp, hws, List.append_assoc]
      rw [ht, flat_el, flat_el]
end

/-- `Occurs u T`: u is T itself or occurs in the subtree of one of T's children -/
inductive OccursL : Node → NodeList → Prop
  | here (u : Node) (r : NodeList) : OccursL u (.NCons u r)
  | inside (u : Node) (n : Str) (ws : Bool) (a : AttrList) (kids r : NodeList) : OccursL u kids → OccursL u (.NCons (.El n ws a kids) r)
  | later (u c : Node) (r : NodeList) : OccursL u r → OccursL u (.NCons c r)

theorem rl_step_html_prefix (cfg : Cfg) (st : St) (c : Node) (x y : Str) (i : Nat) (eol : Str) (e : Bool) :
    ∃ post, (rl_step cfg st c x y i eol e).html = st.html ++ post := by
  cases c with
  | Md d => exact ⟨[], by simp [rl_step]⟩
  | Ob o => exact ⟨[], by simp [rl_step]⟩
  | El n ws a k =>
    exact ⟨sep st.first (st.prev || ws) eol ++ (if (st.prev || ws) then x else y), by simp [rl_step, List.append_assoc]⟩
  | Txt s =>
    exact ⟨sep st.first st.prev eol ++ lead st.prev i ++ (if e then cfg.escT s else s), by simp [rl_step, List.append_assoc]⟩
  | Raw s =>
    exact ⟨sep st.first st.prev eol ++ lead st.prev i ++ s, by simp [rl_step, List.append_assoc]⟩
  | Rp s o =>
    exact ⟨sep st.first st.prev eol ++ lead st.prev i ++ s, by simp [rl_step, List.append_assoc]⟩

/-- the state of the sibling loop only ever grows: everything already emitted stays a prefix -/
theorem rlist_html_prefix (cfg : Cfg) : (l : NodeList) → (st : St) → (i : Nat) → (eol : Str) → (e : Bool) →
    ∃ post, (rlist cfg l st i eol e).html = st.html ++ post
  | .NNil, st, i, eol, e => ⟨[], by simp [rlist_nil]⟩
  | .NCons c r, st, i, eol, e => by
    rw [rlist_cons]
    obtain ⟨p1, h1⟩ := rl_step_html_prefix cfg st c (rtag cfg c i eol) (rtag cfg c 0 []) i eol e
    obtain ⟨p2, h2⟩ := rlist_html_prefix cfg r (rl_step cfg st c (rtag cfg c i eol) (rtag cfg c 0 []) i eol e) i eol e
    exact ⟨p1 ++ p2, by rw [h2, h1, List.append_assoc]⟩

/-! ### frames -/
theorem tagFrame_general (cfg : Cfg) (n : Str) (ws : Bool) (op : Str) (ks : NodeList) (inner : Str) (i : Nat) (eol : Str)
    (h : isSimple ks = false) :
    tagFrame cfg n ws op ks inner i eol =
      op ++ [62] ++ (if ws then eol else []) ++ inner ++ (if ws then eol ++ ind i else []) ++ closeT n := by
  cases ks with
  | NNil => simp [isSimple] at h
  | NCons c r =>
    cases r with
    | NNil => cases c <;> simp_all [isSimple, tagFrame]
    | NCons c2 r2 => cases c <;> simp [tagFrame]

theorem isSimple_cons_of_ne (c : Node) (ks : NodeList) (h : isSimple ks = false) : isSimple (.NCons c ks) = false := by
  cases ks with
  | NNil => simp [isSimple] at h
  | NCons c2 r2 => cases c <;> simp [isSimple]

theorem occurs_not_simple (u : Node) (hu : isEl u = true) (l : NodeList) (h : OccursL u l) :
    isSimple (nonMeta l) = false := by
  induction h with
  | here r =>
    cases u <;> simp [isEl] at hu
    simp only [nonMeta, isMeta]
    cases nonMeta r <;> simp [isSimple]
  | inside n ws a kids r _ _ =>
    simp only [nonMeta, isMeta]
    cases nonMeta r <;> simp [isSimple]
  | later c r _ ih =>
    simp only [nonMeta]
    split
    · exact ih
    · exact isSimple_cons_of_ne c _ ih

/-- an all-inline element as an item of the sibling loop contributes lead ++ its flat string -/
theorem rl_step_inline (cfg : Cfg) (st : St) (c : Node) (i : Nat) (eol : Str) (e : Bool)
    (hi : allInline c = true) (hm : isMeta c = false) :
    rl_step cfg st c (rtag cfg c i eol) (rtag cfg c 0 []) i eol e
      = ⟨st.html ++ sep st.first st.prev eol ++ lead st.prev i ++ flat cfg e c, false, false⟩ := by
  cases c with
  | Md d => simp [isMeta] at hm
  | Ob o => simp [allInline_ob] at hi
  | Txt s => simp [rl_step, flat_txt]
  | Raw s => simp [rl_step, flat_raw]
  | Rp s o => simp [rl_step, flat_rp]
  | El n ws a kids =>
    have hws : ws = false := by
      simp only [allInline_el, Bool.and_eq_true, Bool.not_eq_true'] at hi; exact hi.1
    subst hws
    have h0 := C05_flat_inline_tag cfg (.El n false a kids) 0 [] rfl hi
    have hk := C05_flat_inline_tag cfg (.El n false a kids) i eol rfl hi
    simp only [ind_zero, List.nil_append] at h0
    simp only [rl_step, Bool.or_false, h0, hk, flat_el, lead]
    cases st.prev <;> simp [List.append_assoc]

theorem rl_step_here (cfg : Cfg) (u : Node) (hu : isEl u = true) (hi : allInline u = true)
    (st : St) (i : Nat) (eol : Str) (e : Bool) :
    ∃ pre post, (rl_step cfg st u (rtag cfg u i eol) (rtag cfg u 0 []) i eol e).html = pre ++ flat cfg true u ++ post := by
  have hm : isMeta u = false := by cases u <;> simp [isEl] at hu <;> simp [isMeta]
  have hf : flat cfg e u = flat cfg true u := by
    cases u <;> simp [isEl] at hu
    rw [flat_el, flat_el]
  rw [rl_step_inline cfg st u i eol e hi hm, hf]
  exact ⟨st.html ++ sep st.first st.prev eol ++ lead st.prev i, [], by simp⟩

theorem rtag_contains (cfg : Cfg) (u : Node) (hu : isEl u = true)
    (n : Str) (ws : Bool) (a : AttrList) (kids : NodeList) (h : OccursL u kids)
    (ih : ∀ (st : St) (i : Nat) (eol : Str) (e : Bool),
      ∃ pre post, (rlist cfg kids st i eol e).html = pre ++ flat cfg true u ++ post)
    (i : Nat) (eol : Str) :
    ∃ pre post, rtag cfg (.El n ws a kids) i eol = pre ++ flat cfg true u ++ post := by
  rw [rtag_el, tagFrame_general _ _ _ _ _ _ _ _ (occurs_not_simple u hu kids h)]
  obtain ⟨pre, post, hp⟩ := ih ⟨[], true, ws⟩ (i+1) eol (!cfg.noEsc n)
  rw [hp]
  exact ⟨attrFold cfg a (ind i ++ [60] ++ n) ++ [62] ++ (if ws then eol else []) ++ pre,
    post ++ (if ws then eol ++ ind i else []) ++ closeT n, by simp only [List.append_assoc]⟩

/-- (b) wherever an all-inline element is placed — any depth, any siblings, inside block or inline
parents, any indent/eol — its exact flat string appears contiguously in the output -/
theorem C05_contiguous_list (cfg : Cfg) (u : Node) (hu : isEl u = true) (hi : allInline u = true) :
    (l : NodeList) → OccursL u l → (st : St) → (i : Nat) → (eol : Str) → (e : Bool) →
    ∃ pre post, (rlist cfg l st i eol e).html = pre ++ flat cfg true u ++ post := by
  intro l h
  induction h with
  | here r =>
    intro st i eol e
    rw [rlist_cons]
    obtain ⟨p2, h2⟩ := rlist_html_prefix cfg r (rl_step cfg st u (rtag cfg u i eol) (rtag cfg u 0 []) i eol e) i eol e
    obtain ⟨pre, post, h1⟩ := rl_step_here cfg u hu hi st i eol e
    exact ⟨pre, post ++ p2, by rw [h2, h1]; simp only [List.append_assoc]⟩
  | inside n ws a kids r hk ih =>
    intro st i eol e
    rw [rlist_cons]
    obtain ⟨p2, h2⟩ := rlist_html_prefix cfg r
      (rl_step cfg st (.El n ws a kids) (rtag cfg (.El n ws a kids) i eol) (rtag cfg (.El n ws a kids) 0 []) i eol e) i eol e
    obtain ⟨preI, postI, hI⟩ := rtag_contains cfg u hu n ws a kids hk ih i eol
    obtain ⟨pre0, post0, h0⟩ := rtag_contains cfg u hu n ws a kids hk ih 0 []
    rw [h2]
    simp only [rl_step]
    cases (st.prev || ws)
    · rw [h0]; exact ⟨st.html ++ sep st.first false eol ++ pre0, post0 ++ p2, by simp [List.append_assoc]⟩
    · rw [hI]; exact ⟨st.html ++ sep st.first true eol ++ preI, postI ++ p2, by simp [List.append_assoc]⟩
  | later c r _ ih =>
    intro st i eol e
    rw [rlist_cons]
    exact ih _ i eol e

theorem C05_contiguous_tag (cfg : Cfg) (u : Node) (hu : isEl u = true) (hi : allInline u = true)
    (n : Str) (ws : Bool) (a : AttrList) (kids : NodeList) (h : OccursL u kids) (i : Nat) (eol : Str) :
    ∃ pre post, rtag cfg (.El n ws a kids) i eol = pre ++ flat cfg true u ++ post :=
  rtag_contains cfg u hu n ws a kids h (C05_contiguous_list cfg u hu hi kids h) i eol

theorem rlist_nappend (cfg : Cfg) : (l1 l2 : NodeList) → (st : St) → (i : Nat) → (eol : Str) → (e : Bool) →
    rlist cfg (nappend l1 l2) st i eol e = rlist cfg l2 (rlist cfg l1 st i eol e) i eol e
  | .NNil, l2, st, i, eol, e => by simp [nappend, rlist_nil]
  | .NCons c r, l2, st, i, eol, e => by
    simp only [nappend, rlist_cons]
    exact rlist_nappend cfg r l2 _ i eol e

theorem rlist_allMeta (cfg : Cfg) : (l : NodeList) → (st : St) → (i : Nat) → (eol : Str) → (e : Bool) →
    allMeta l = true → rlist cfg l st i eol e = st
  | .NNil, st, i, eol, e, _ => by rw [rlist_nil]
  | .NCons c r, st, i, eol, e, h => by
    simp only [allMeta, Bool.and_eq_true] at h
    obtain ⟨d, hd⟩ := isMeta_eq_md' c h.1
    subst hd
    rw [rlist_cons]
    simp only [rl_step]
    exact rlist_allMeta cfg r st i eol e h.2

/-- (c) adjacent siblings neither of which contains a whitespace-enabled tag are emitted with nothing
between them (metadata nodes between them are invisible), whatever precedes and follows -/
theorem C05_siblings_adjacent (cfg : Cfg) (l1 metas l2 : NodeList) (c1 c2 : Node)
    (h1 : allInline c1 = true) (h2 : allInline c2 = true) (hm1 : isMeta c1 = false) (hm2 : isMeta c2 = false)
    (hm : allMeta metas = true) (st : St) (i : Nat) (eol : Str) (e : Bool) :
    ∃ pre post, (rlist cfg (nappend l1 (.NCons c1 (nappend metas (.NCons c2 l2)))) st i eol e).html
      = pre ++ flat cfg e c1 ++ flat cfg e c2 ++ post := by
  rw [rlist_nappend, rlist_cons, rl_step_inline cfg _ c1 i eol e h1 hm1, rlist_nappend,
    rlist_allMeta cfg metas _ i eol e hm, rlist_cons, rl_step_inline cfg _ c2 i eol e h2 hm2]
  obtain ⟨post, hp⟩ := rlist_html_prefix cfg l2
    (St.mk
      ((St.mk ((rlist cfg l1 st i eol e).html ++ sep (rlist cfg l1 st i eol e).first (rlist cfg l1 st i eol e).prev eol
          ++ lead (rlist cfg l1 st i eol e).prev i ++ flat cfg e c1) false false).html
        ++ sep false false eol ++ lead false i ++ flat cfg e c2) false false) i eol e
  refine ⟨(rlist cfg l1 st i eol e).html ++ sep (rlist cfg l1 st i eol e).first (rlist cfg l1 st i eol e).prev eol
          ++ lead (rlist cfg l1 st i eol e).prev i, post, ?_⟩
  rw [hp]
  simp [sep, lead, List.append_assoc]

#print axioms C05_flat_inline_tag
#print axioms C05_contiguous_tag
#print axioms C05_siblings_adjacent
end HV
