/-
C03 — attribute values are inert, single-line, and decode to the original;  C04 (second half) —
HTML() attribute values verbatim, concatenation algebra of HTML().   Statements fixed.
-/
import HV.RenderBase
import HV.EscFacts
import HV.Consts
namespace HV

/-- G: the attribute table's keys are exactly & < > " ' CR LF -/
theorem ATTR_keys : (∀ c, (lookup ATTR c).isSome = true ↔ (c = 38 ∨ c = 60 ∨ c = 62 ∨ c = 34 ∨ c = 39 ∨ c = 13 ∨ c = 10)) := by
  intro c
  rw [keys_iff_of_B ATTR [38, 60, 62, 34, 39, 13, 10] (by decide) (by decide) c]
  simp
theorem ATTR_refs : ATTR.all (fun p => refDecodes p.2 p.1) = true := by decide

theorem C03_esc_spec (s : Str) :
    realCfg.escA s = s.flatMap (fun c => match lookup ATTR c with | some v => v | none => [c]) :=
  esc_char_spec ATTR s
theorem C03_decodes (s : Str) : decode ATTR (realCfg.escA s) = s :=
  decode_esc ATTR (by decide) (by decide) (by decide) s
/-- never terminates the value ("), never closes the tag (>), never breaks the line (CR, LF); also no ' and no < -/
theorem C03_inert (s : Str) :
    34 ∉ realCfg.escA s ∧ 62 ∉ realCfg.escA s ∧ 60 ∉ realCfg.escA s ∧ 39 ∉ realCfg.escA s ∧ 13 ∉ realCfg.escA s ∧ 10 ∉ realCfg.escA s :=
  ⟨esc_avoids_B ATTR 34 (by decide) s, esc_avoids_B ATTR 62 (by decide) s, esc_avoids_B ATTR 60 (by decide) s,
   esc_avoids_B ATTR 39 (by decide) s, esc_avoids_B ATTR 13 (by decide) s, esc_avoids_B ATTR 10 (by decide) s⟩
theorem C03_amp_only_refs (s : Str) :
    ∀ pre post, realCfg.escA s = pre ++ 38 :: post → ∃ p ∈ ATTR, ∃ rest, 38 :: post = p.2 ++ rest :=
  esc_amp_only_refs ATTR (by decide) (by decide) (by decide) s
theorem C03_esc_append (a b : Str) : realCfg.escA (a ++ b) = realCfg.escA a ++ realCfg.escA b :=
  esc_append ATTR a b
theorem C03_esc_space : realCfg.escA [32] = [32] ∧ realCfg.escT [32] = [32] :=
  ⟨esc_single_nonkey ATTR 32 (by decide), esc_single_nonkey TEXT 32 (by decide)⟩

/-- the attribute writer: each attribute is emitted as  space key="value"  in insertion order, a plain
value through escA, an HTML() value verbatim (C04) -/
theorem C03_attr_segment (cfg : Cfg) (a1 a2 : AttrList) (k : Str) (v : AttrVal) :
    attrStr cfg (aappend a1 (.ACons k v a2)) = attrStr cfg a1 ++ [32] ++ k ++ [61,34] ++ renderAttr cfg v ++ [34] ++ attrStr cfg a2 := by
  induction a1 with
  | ANil => simp [aappend, attrStr, List.append_assoc]
  | ACons k' v' tl ih => simp only [aappend, attrStr, ih]; simp [List.append_assoc]
theorem C03_plain_attr (cfg : Cfg) (s : Str) : renderAttr cfg (.Plain s) = cfg.escA s := rfl
theorem C04_html_attr_verbatim (cfg : Cfg) (h : Str) : renderAttr cfg (.RawV h) = h := rfl
/-- every arm of the tag frame starts with the opening-tag text -/
theorem tagFrame_open_prefix (cfg : Cfg) (n : Str) (ws : Bool) (op : Str) (ks : NodeList) (inner : Str) (i : Nat) (eol : Str) :
    ∃ post, tagFrame cfg n ws op ks inner i eol = op ++ post := by
  unfold tagFrame
  split
  · split
    · exact ⟨_, rfl⟩
    · exact ⟨_, by simp only [List.append_assoc]; rfl⟩
  · split
    · exact ⟨_, by simp only [List.append_assoc]; rfl⟩
    · exact ⟨_, by simp only [List.append_assoc]; rfl⟩
  · exact ⟨_, by simp only [List.append_assoc]; rfl⟩
  · exact ⟨_, by simp only [List.append_assoc]; rfl⟩

/-- the opening tag of any element carries exactly `attrStr` -/
theorem C03_open_tag (cfg : Cfg) (n : Str) (ws : Bool) (a : AttrList) (kids : NodeList) (i : Nat) (eol : Str) :
    ∃ post, rtag cfg (.El n ws a kids) i eol = ind i ++ [60] ++ n ++ attrStr cfg a ++ post := by
  rw [rtag_el, attrFold_eq]
  exact tagFrame_open_prefix cfg n ws _ _ _ i eol

/-- merging: the rendered merged value is the two rendered values separated by one space, for every
mix of plain and HTML() values -/
theorem C03_merge (prev val : AttrVal) :
    renderAttr realCfg (joinAV realCfg prev val) = renderAttr realCfg prev ++ [32] ++ renderAttr realCfg val := by
  have h32 : esc ATTR [32] = [32] := esc_single_nonkey ATTR 32 (by decide)
  cases prev <;> cases val <;> simp only [joinAV, renderAttr]
  · show esc ATTR _ = esc ATTR _ ++ [32] ++ esc ATTR _
    rw [esc_append, esc_append, h32]
theorem C03_merge_raw (prev val : AttrVal) : isRawV (joinAV realCfg prev val) = (isRawV prev || isRawV val) := by
  cases prev <;> cases val <;> rfl

/-! ### C04: concatenation algebra of str / HTML() under +, in any order and grouping -/
theorem C04_add_rend (a b : AttrVal) : rendTH realCfg (addTH realCfg a b) = rendTH realCfg a ++ rendTH realCfg b := by
  cases a <;> cases b <;> simp only [addTH, rendTH]
  · exact esc_append TEXT _ _
theorem C04_add_raw (a b : AttrVal) : isRawV (addTH realCfg a b) = (isRawV a || isRawV b) := by
  cases a <;> cases b <;> rfl
/-- any expression over +: HTML() as soon as one operand is; rendering as a child equals rendering the
operands as separate adjacent children (each plain operand escaped exactly once, HTML() operands never) -/
theorem C04_concat_algebra (e : THExpr) :
    isRawV (evalTH realCfg e) = anyRaw e ∧ rendTH realCfg (evalTH realCfg e) = rendLeaves realCfg e := by
  induction e with
  | Leaf v => exact ⟨rfl, rfl⟩
  | Add l r ihl ihr =>
    simp only [evalTH, anyRaw, rendLeaves]
    rw [C04_add_raw, C04_add_rend, ihl.1, ihl.2, ihr.1, ihr.2]
    exact ⟨rfl, rfl⟩
/-- with no HTML() operand the result is the plain concatenation (str + str is not HTML's business) -/
theorem C04_all_plain (e : THExpr) (h : anyRaw e = false) : evalTH realCfg e = .Plain (catLeaves e) := by
  induction e with
  | Leaf v =>
    cases v with
    | Plain s => rfl
    | RawV s => simp [anyRaw, isRawV] at h
  | Add l r ihl ihr =>
    simp only [anyRaw, Bool.or_eq_false_iff] at h
    simp only [evalTH, catLeaves, ihl h.1, ihr h.2, addTH]

#print axioms C03_inert
#print axioms C03_merge
#print axioms C04_concat_algebra
end HV
