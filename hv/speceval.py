"""Generic typed evaluator of the restricted spec language over an abstract back end.

The same walk produces z3 terms (hv.emit_z3) and Lean text (hv.emit_lean); running the Python
function itself is the third emission.  Anything outside the subset raises SpecError (the spec
author has to rewrite; nothing is skipped)."""
from __future__ import annotations
import ast
from .speclang import REG, SpecFn, BASE_SORTS


class SpecError(Exception):
    pass


class Val:
    __slots__ = ("sort", "v")

    def __init__(self, sort, v):
        self.sort = sort
        self.v = v

    def __repr__(self):
        return f"Val({self.sort}, {self.v})"


def num(sort):
    return sort in ("Int", "Nat")


class Evaluator:
    """Subclasses implement the b_* methods."""

    def __init__(self, reg=REG):
        self.reg = reg

    # ----- statements -----
    def eval_block(self, stmts, env, fn: SpecFn):
        if not stmts:
            raise SpecError(f"{fn.name}: block falls off the end without return")
        st, rest = stmts[0], stmts[1:]
        if isinstance(st, ast.Expr) and isinstance(st.value, ast.Constant) and isinstance(st.value.value, str):
            return self.eval_block(rest, env, fn)  # docstring
        if isinstance(st, ast.Return):
            if st.value is None:
                raise SpecError(f"{fn.name}: bare return")
            r = self.eval(st.value, env, fn, want=fn.ret)
            return self.coerce(r, fn.ret, fn)
        if isinstance(st, ast.Assign):
            if len(st.targets) != 1 or not isinstance(st.targets[0], ast.Name):
                raise SpecError(f"{fn.name}: only `x = e` assignments")
            name = st.targets[0].id
            v = self.eval(st.value, env, fn)
            return self.b_let(name, v, lambda bound: self.eval_block(rest, {**env, name: bound}, fn))
        if isinstance(st, ast.AnnAssign) and isinstance(st.target, ast.Name) and st.value is not None:
            name = st.target.id
            v = self.eval(st.value, env, fn, want=_ann(st.annotation))
            return self.b_let(name, v, lambda bound: self.eval_block(rest, {**env, name: bound}, fn))
        if isinstance(st, ast.If):
            c = self.eval(st.test, env, fn, want="Bool")
            self.expect(c, "Bool", fn, st)
            a = lambda: self.eval_block(list(st.body) + rest, env, fn)
            b = lambda: self.eval_block(list(st.orelse) + rest, env, fn)
            return self.b_ite(c, a, b, fn.ret)
        if isinstance(st, ast.Match):
            subj = self.eval(st.subject, env, fn)
            cases = []
            for cs in st.cases:
                if cs.guard is not None:
                    raise SpecError(f"{fn.name}: match guards are not in the subset")
                cases.append((cs.pattern, (lambda body: (lambda binds: self.eval_block(list(body) + rest, {**env, **binds}, fn)))(cs.body)))
            return self.b_match(subj, cases, fn.ret, fn)
        raise SpecError(f"{fn.name}: statement {type(st).__name__} is not in the subset")

    # ----- expressions -----
    def expect(self, v, sort, fn, node=None):
        if v.sort != sort and not (num(v.sort) and num(sort)):
            raise SpecError(f"{fn.name}: expected {sort}, got {v.sort} at line {getattr(node, 'lineno', '?')}")

    def coerce(self, v, sort, fn):
        self.expect(v, sort, fn)
        return v

    def eval(self, e, env, fn, want=None) -> Val:
        if isinstance(e, ast.Constant):
            c = e.value
            if isinstance(c, bool):
                return self.b_bool(c)
            if isinstance(c, int):
                return self.b_int(c, want if want in ("Int", "Nat") else "Nat" if c >= 0 else "Int")
            if isinstance(c, str):
                return self.b_str(c)
            raise SpecError(f"{fn.name}: literal {c!r}")
        if isinstance(e, ast.Name):
            if e.id in env:
                return env[e.id]
            if e.id in self.reg.ctors and not self.reg.ctors[e.id].fields:
                raise SpecError(f"{fn.name}: nullary constructor {e.id} must be called: {e.id}()")
            raise SpecError(f"{fn.name}: unbound name {e.id}")
        if isinstance(e, ast.BoolOp):
            vs = [self.eval(x, env, fn, want="Bool") for x in e.values]
            for v in vs:
                self.expect(v, "Bool", fn, e)
            return self.b_and(vs) if isinstance(e.op, ast.And) else self.b_or(vs)
        if isinstance(e, ast.UnaryOp) and isinstance(e.op, ast.Not):
            v = self.eval(e.operand, env, fn, want="Bool")
            self.expect(v, "Bool", fn, e)
            return self.b_not(v)
        if isinstance(e, ast.BinOp):
            if isinstance(e.op, ast.Add):
                a = self.eval(e.left, env, fn, want=want)
                b = self.eval(e.right, env, fn, want=a.sort)
                if a.sort == "Str" and b.sort == "Str":
                    return self.b_concat(a, b)
                if num(a.sort) and num(b.sort):
                    return self.b_add(a, b)
                if a.sort == b.sort and a.sort in self.reg.adts and self.list_adt(a.sort):
                    return self.b_call(self.list_adt(a.sort)["append"], [a, b], fn)
                raise SpecError(f"{fn.name}: `+` on {a.sort} and {b.sort} (line {e.lineno})")
            if isinstance(e.op, ast.Sub):
                a = self.eval(e.left, env, fn, want="Int")
                b = self.eval(e.right, env, fn, want="Int")
                return self.b_sub(a, b)
            raise SpecError(f"{fn.name}: operator {type(e.op).__name__}")
        if isinstance(e, ast.Compare):
            if len(e.ops) != 1:
                raise SpecError(f"{fn.name}: chained comparison")
            a = self.eval(e.left, env, fn)
            b = self.eval(e.comparators[0], env, fn, want=a.sort)
            op = e.ops[0]
            if isinstance(op, (ast.Eq, ast.NotEq)):
                if a.sort != b.sort and not (num(a.sort) and num(b.sort)):
                    raise SpecError(f"{fn.name}: == between {a.sort} and {b.sort} (line {e.lineno})")
                r = self.b_eq(a, b)
                return r if isinstance(op, ast.Eq) else self.b_not(r)
            if isinstance(op, (ast.Lt, ast.LtE, ast.Gt, ast.GtE)):
                if not (num(a.sort) and num(b.sort)):
                    raise SpecError(f"{fn.name}: ordering on {a.sort}")
                return self.b_cmp({ast.Lt: "<", ast.LtE: "<=", ast.Gt: ">", ast.GtE: ">="}[type(op)], a, b)
            raise SpecError(f"{fn.name}: comparison {type(op).__name__}")
        if isinstance(e, ast.IfExp):
            c = self.eval(e.test, env, fn, want="Bool")
            self.expect(c, "Bool", fn, e)
            return self.b_ite(c, lambda: self.eval(e.body, env, fn, want=want), lambda: self.eval(e.orelse, env, fn, want=want), want)
        if isinstance(e, ast.Attribute):
            v = self.eval(e.value, env, fn)
            a = self.reg.adts.get(v.sort)
            if a is None or len(a.ctors) != 1:
                raise SpecError(f"{fn.name}: field access .{e.attr} on {v.sort} (only records; use match)")
            c = a.ctors[0]
            for f, s in c.fields:
                if f == e.attr:
                    return self.b_field(v, c, f, s)
            raise SpecError(f"{fn.name}: {v.sort} has no field {e.attr}")
        if isinstance(e, ast.Call) and isinstance(e.func, ast.Name):
            name = e.func.id
            if e.keywords:
                raise SpecError(f"{fn.name}: keyword arguments in call to {name}")
            if name in self.reg.ctors:
                c = self.reg.ctors[name]
                if len(e.args) != len(c.fields):
                    raise SpecError(f"{fn.name}: {name} takes {len(c.fields)} fields")
                args = [self.eval(x, env, fn, want=s) for x, (_, s) in zip(e.args, c.fields)]
                for v, (_, s) in zip(args, c.fields):
                    self.expect(v, s, fn, e)
                return self.b_ctor(c, args)
            if name in self.reg.fns:
                f = self.reg.fns[name]
                if len(e.args) != len(f.params):
                    raise SpecError(f"{fn.name}: {name} takes {len(f.params)} arguments (line {e.lineno})")
                args = [self.eval(x, env, fn, want=s) for x, (_, s) in zip(e.args, f.params)]
                for v, (_, s) in zip(args, f.params):
                    self.expect(v, s, fn, e)
                return self.b_call(f, args, fn)
            raise SpecError(f"{fn.name}: call to unknown function {name}")
        raise SpecError(f"{fn.name}: expression {type(e).__name__} is not in the subset (line {getattr(e, 'lineno', '?')})")

    def list_adt(self, sort):
        return None

    # ----- pattern analysis shared by back ends -----
    def pattern_sorted(self, pat, sort, fn):
        """Returns a normalised pattern tree: ('wild',), ('var', name, sort), ('ctor', Ctor, [sub...]),
        ('lit', value, sort)."""
        if isinstance(pat, ast.MatchAs):
            if pat.pattern is not None:
                raise SpecError(f"{fn.name}: `as` patterns")
            return ("wild", sort) if pat.name is None else ("var", pat.name, sort)
        if isinstance(pat, ast.MatchValue) and isinstance(pat.value, ast.Constant):
            return ("lit", pat.value.value, sort)
        if isinstance(pat, ast.MatchSingleton):
            return ("lit", pat.value, sort)
        if isinstance(pat, ast.MatchClass) and isinstance(pat.cls, ast.Name):
            c = self.reg.ctors.get(pat.cls.id)
            if c is None:
                raise SpecError(f"{fn.name}: unknown constructor {pat.cls.id} in pattern")
            if c.adt.name != sort:
                raise SpecError(f"{fn.name}: pattern {c.name} does not belong to {sort}")
            if pat.kwd_attrs or len(pat.patterns) != len(c.fields):
                raise SpecError(f"{fn.name}: pattern {c.name} needs {len(c.fields)} positional sub-patterns")
            return ("ctor", c, [self.pattern_sorted(p, s, fn) for p, (_, s) in zip(pat.patterns, c.fields)])
        raise SpecError(f"{fn.name}: pattern {type(pat).__name__} is not in the subset")


def _ann(a):
    if isinstance(a, ast.Constant):
        return a.value
    if isinstance(a, ast.Name):
        return a.id
    raise SpecError("bad annotation")
