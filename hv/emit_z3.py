"""z3 emission of the L1 specs: ADTs -> z3 datatypes, non-recursive spec functions -> macro
expansion, recursive ones -> RecFunction (define-fun-rec), abstract/prim -> uninterpreted (or the
prim's own z3def)."""
from __future__ import annotations
import ast
import z3
from .speclang import REG, SpecFn, Ctor
from .speceval import Evaluator, Val, SpecError, num


class _NoUnfold(Exception):
    pass


OPAQUE = {"withKids", "kidsOf", "kidsOfN", "kidsOfD", "withAttrs", "attrsOf", "attrsOfD", "withAttrsD", "newHead", "listingTag", "headExtra",
          "hoistKids", "hoist", "docTree", "tagAttrs", "tagKids", "tagRaises", "renderT", "renderL", "docRender", "addClassAttrs", "addStyleAttrs",
          "removeClassAttrs", "hasClassAttrs", "optArg"}


def _z3_str(t):
    """the Python string denoted by a z3 string literal (z3 escapes non-printable / non-ASCII characters as \\u{..})"""
    import re
    raw = t.as_string()
    return re.sub(r"\\u\{([0-9a-fA-F]+)\}", lambda m: chr(int(m.group(1), 16)), raw)


class Z3World(Evaluator):
    def __init__(self, reg=REG, ctx=None):
        super().__init__(reg)
        self.ctx = ctx
        self.sorts = {"Str": z3.StringSort(ctx), "Int": z3.IntSort(ctx), "Nat": z3.IntSort(ctx), "Bool": z3.BoolSort(ctx)}
        self.dts = {}
        self._build_adts()
        self.funcs = {}
        self._static = False
        self._unfold_depth = 0
        self.rec = {n for n in reg.fns if reg.fns[n].kind == "spec" and reg.is_recursive(n)}
        # non-recursive functions that duplicate a (possibly large) argument in several match arms are kept as named
        # definitions (define-fun-rec, unfolded lazily by z3) instead of being macro-expanded
        self.rec |= {n for n in OPAQUE if n in reg.fns and reg.fns[n].kind == "spec"}
        self._declare()
        self._define()

    # ---- sorts ----
    def _build_adts(self):
        done = set()
        for aname, a in self.reg.adts.items():
            if aname in done:
                continue
            group = a.group
            decls = {g: z3.Datatype(g, ctx=self.ctx) for g in group}
            for g in group:
                for c in self.reg.adts[g].ctors:
                    flds = []
                    for f, s in c.fields:
                        flds.append((self._acc(c, f), decls[s] if s in decls else self.sorts[s]))
                    decls[g].declare(c.name, *flds)
            created = z3.CreateDatatypes(*[decls[g] for g in group])
            for g, dt in zip(group, created):
                self.sorts[g] = dt
                self.dts[g] = dt
                done.add(g)

    @staticmethod
    def _acc(c: Ctor, f):
        return f"{c.name}_{f}"

    def sort(self, s):
        return self.sorts[s]

    def ctor_fn(self, c: Ctor):
        return getattr(self.dts[c.adt.name], c.name)

    def is_ctor(self, c: Ctor, t):
        return getattr(self.dts[c.adt.name], "is_" + c.name)(t)

    def acc(self, c: Ctor, f, t):
        return getattr(self.dts[c.adt.name], self._acc(c, f))(t)

    # ---- functions ----
    def _declare(self):
        for name, f in self.reg.fns.items():
            dom = [self.sort(s) for _, s in f.params]
            rng = self.sort(f.ret)
            if f.kind == "abstract":
                self.funcs[name] = z3.Function(name, *dom, rng)
            elif f.kind == "prim":
                if f.z3def is not None:
                    self.funcs[name] = f.z3def(self, name, dom, rng)
                else:
                    self.funcs[name] = z3.Function(name, *dom, rng)
            elif name in self.rec:
                self.funcs[name] = z3.RecFunction(name, *dom, rng)

    def _define(self):
        for name in self.rec:
            f = self.reg.fns[name]
            args = [z3.Const("_" + p, self.sort(s)) if self.ctx is None else z3.Const("_" + p, self.sort(s)) for p, s in f.params]
            env = {p: Val(s, a) for (p, s), a in zip(f.params, args)}
            body = self.eval_block(list(f.node.body), env, f)
            z3.RecAddDefinition(self.funcs[name], args, body.v)

    def apply(self, name, *args):
        """Apply spec function `name` to z3 terms (macro-expanding when non-recursive)."""
        f = self.reg.fns[name]
        vals = [a if isinstance(a, Val) else Val(s, a) for a, (_, s) in zip(args, f.params)]
        return self.b_call(f, vals, f).v

    # ---- back-end methods ----
    def b_bool(self, b):
        return Val("Bool", z3.BoolVal(b, self.ctx))

    def b_int(self, n, sort):
        return Val(sort, z3.IntVal(n, self.ctx))

    def b_str(self, s):
        return Val("Str", z3.StringVal(s, self.ctx))

    def b_and(self, vs):
        return Val("Bool", z3.And(*[v.v for v in vs]))

    def b_or(self, vs):
        return Val("Bool", z3.Or(*[v.v for v in vs]))

    def b_not(self, v):
        return Val("Bool", z3.Not(v.v))

    def b_concat(self, a, b):
        return Val("Str", z3.Concat(a.v, b.v))

    def b_add(self, a, b):
        return Val("Int" if "Int" in (a.sort, b.sort) else "Nat", a.v + b.v)

    def b_sub(self, a, b):
        if a.sort == "Nat" or b.sort == "Nat":
            raise SpecError("subtraction on Nat is not in the subset (truncation differs between back ends)")
        return Val("Int", a.v - b.v)

    def b_eq(self, a, b):
        return Val("Bool", a.v == b.v)

    def b_cmp(self, op, a, b):
        return Val("Bool", {"<": a.v < b.v, "<=": a.v <= b.v, ">": a.v > b.v, ">=": a.v >= b.v}[op])

    def b_ite(self, c, a, b, want):
        if self._static:
            cs = z3.simplify(c.v)
            if z3.is_true(cs):
                return a()
            if z3.is_false(cs):
                return b()
            raise _NoUnfold()
        x, y = a(), b()
        if x.sort != y.sort and not (num(x.sort) and num(y.sort)):
            raise SpecError(f"branches have sorts {x.sort} / {y.sort}")
        return Val(x.sort, z3.If(c.v, x.v, y.v))

    def b_let(self, name, v, body):
        return body(v)

    def b_field(self, v, c, f, s):
        return Val(s, self.acc(c, f, v.v))

    def b_ctor(self, c, args):
        fn = self.ctor_fn(c)
        return Val(c.adt.name, fn(*[a.v for a in args]) if args else fn)

    def _const_py(self, sort, t):
        t = z3.simplify(t)
        if sort == "Str" and z3.is_string_value(t):
            return True, _z3_str(t)
        if sort in ("Int", "Nat") and z3.is_int_value(t):
            return True, t.as_long()
        if sort == "Bool" and (z3.is_true(t) or z3.is_false(t)):
            return True, z3.is_true(t)
        return False, None

    def b_call(self, f: SpecFn, args, caller):
        if f.kind == "prim" and f.z3def is None and f.pyfn is not None and f.ret in ("Str", "Int", "Nat", "Bool") and args:
            # constant folding: a primitive applied to literals is evaluated by its Python body (the CPython operation itself)
            cs = [self._const_py(s_, a.v) for (_, s_), a in zip(f.params, args)]
            if all(ok for ok, _ in cs):
                try:
                    r = f.pyfn(*[v for _, v in cs])
                    if f.ret == "Str" and isinstance(r, str):
                        return self.b_str(r)
                    if f.ret == "Bool" and isinstance(r, bool):
                        return self.b_bool(r)
                    if f.ret in ("Int", "Nat") and isinstance(r, int) and not isinstance(r, bool):
                        return self.b_int(r, f.ret)
                except Exception:
                    pass
        if f.name in self.funcs:
            if f.kind == "spec" and f.node is not None and self._unfold_depth < 40:
                # partial evaluation: unfold a defined function whose control flow is decided by the constructors already
                # present in its arguments (sound: it is the definition); otherwise keep the application
                saved = (self._static, self._unfold_depth)
                self._static, self._unfold_depth = True, self._unfold_depth + 1
                try:
                    env = {p: Val(s_, z3.simplify(a.v)) for (p, s_), a in zip(f.params, args)}
                    r = self.eval_block(list(f.node.body), env, f)
                    return Val(r.sort, z3.simplify(r.v))
                except _NoUnfold:
                    pass
                finally:
                    self._static, self._unfold_depth = saved
            return Val(f.ret, self.funcs[f.name](*[a.v for a in args]))
        # non-recursive spec function: macro expansion
        env = {p: a for (p, _), a in zip(f.params, args)}
        return self.eval_block(list(f.node.body), env, f)

    def pat_cond(self, p, t):
        """(condition term, bindings) for normalised pattern p against term t"""
        k = p[0]
        if k == "wild":
            return z3.BoolVal(True, self.ctx), {}
        if k == "var":
            return z3.BoolVal(True, self.ctx), {p[1]: Val(p[2], t)}
        if k == "lit":
            lit = p[1]
            lv = z3.BoolVal(lit, self.ctx) if isinstance(lit, bool) else z3.IntVal(lit, self.ctx) if isinstance(lit, int) else z3.StringVal(lit, self.ctx)
            return t == lv, {}
        c = p[1]
        conds = [self.is_ctor(c, t)]
        binds = {}
        for sub, (f, _) in zip(p[2], c.fields):
            cc, bb = self.pat_cond(sub, self.acc(c, f, t))
            conds.append(cc)
            binds.update(bb)
        return z3.simplify(z3.And(*conds)), binds

    def b_match(self, subj, cases, want, fn):
        if self._static:
            for pat, body in cases:
                p = self.pattern_sorted(pat, subj.sort, fn)
                cond, binds = self.pat_cond(p, subj.v)
                cs = z3.simplify(cond)
                if z3.is_true(cs):
                    return body({k: Val(v.sort, z3.simplify(v.v)) for k, v in binds.items()})
                if not z3.is_false(cs):
                    raise _NoUnfold()
            raise _NoUnfold()
        built = []
        for pat, body in cases:
            p = self.pattern_sorted(pat, subj.sort, fn)
            cond, binds = self.pat_cond(p, subj.v)
            built.append((cond, body(binds)))
        res = built[-1][1]
        for cond, val in reversed(built[:-1]):
            res = Val(val.sort, z3.If(cond, val.v, res.v))
        return res


_WORLD = None


def get_world():
    """process-wide singleton (RecFunctions can be declared only once per z3 context)"""
    global _WORLD
    if _WORLD is None:
        _WORLD = Z3World()
    return _WORLD
