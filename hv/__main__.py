import os, sys
if os.environ.get("PYTHONHASHSEED") != "0":
    # string hashing decides the iteration order of sets, hence the order of assertions handed to the solvers; E-matching is
    # sensitive to that order (same query: 0.1 s or 8 s).  A fixed hash seed makes a run reproduce: same tree, same queries.
    os.execve(sys.executable, [sys.executable, "-m", "hv"] + sys.argv[1:], dict(os.environ, PYTHONHASHSEED="0"))
from .cli import main
sys.exit(main())
