"""python3-vt -m hv check Cxx [--tier quick|thorough]   (DESIGN §5, §10)

Exit 0: every obligation of the property's plan discharged on the current working tree (and the
bounded parts found nothing), or only listed KNOWN-FINDINGs remain.  Exit 1: VIOLATION line printed.
Undischarged-but-not-refuted obligations are reported as UNDECIDED (never as violations)."""
from __future__ import annotations
import argparse, json, os, sys, time, fnmatch, traceback, threading, re

ROOT = os.path.dirname(os.path.dirname(os.path.abspath(__file__)))


def main(argv=None):
    ap = argparse.ArgumentParser(prog="hv")
    sub = ap.add_subparsers(dest="cmd", required=True)
    c = sub.add_parser("check")
    c.add_argument("prop")
    c.add_argument("--tier", default=os.environ.get("VERIF_TIER", "quick"), choices=["quick", "thorough"])
    r = sub.add_parser("replay")
    r.add_argument("path")
    s = sub.add_parser("setup")
    l = sub.add_parser("list")
    args = ap.parse_args(argv)
    if args.cmd == "check":
        from .check import run_check
        try:
            return run_check(args.prop, args.tier, int(os.environ.get("VERIF_SEED", "0") or 0))
        except SystemExit:
            raise
        except Exception:
            traceback.print_exc()
            print(f"CHECKER-CRASH property={args.prop}")
            return 3
    if args.cmd == "replay":
        from .check import run_replay
        return run_replay(args.path)
    if args.cmd == "setup":
        from .check import run_setup
        return run_setup()
    if args.cmd == "list":
        from .plans import PLANS
        for k, p in sorted(PLANS.items()):
            print(k, p.level, p.title)
        return 0


if __name__ == "__main__":
    sys.exit(main())
