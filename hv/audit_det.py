"""C18: determinism audit over the call-graph closure of the observable APIs (G-obligations).

A function whose functional contract `result == f(args)` is discharged is deterministic and history-independent by
construction (the verified subset has no model for set iteration order, hash(), id(), clocks, the environment or mutable
module globals).  For every function reachable from the observable APIs - under contract or not - this audit checks the
same exclusions syntactically, on the real AST of this run:

  hash-or-id      no call of the builtins hash() / id(), nothing from random, time, uuid, secrets, os.urandom, os.environ / getenv
  set-iteration   no iteration over a set-valued expression (for / comprehension source, list(), tuple(), join(), *splat, extend(),
                  dict.fromkeys(), enumerate(), zip(), map()): a set may only be tested (`in`), added to, measured or sorted
  module-state    no `global` / `nonlocal` of module state, no store into a module-level mutable container, no functools cache;
                  the only module global read on the render path is htmltools.html_dependency_render_mode

The call graph is resolved by name (a call `x.f(...)` may reach every function or method named `f` in the package):
an over-approximation of reachability, so nothing reachable is skipped.
"""
from __future__ import annotations
import ast
from .vc import Verdict

MODULES = ["htmltools._core", "htmltools._util", "htmltools._jsx", "htmltools.tags", "htmltools.svg"]
ROOTS = {"render", "get_html_string", "tagify", "get_dependencies", "save_html", "__str__", "__repr__", "_repr_html_", "as_html_tags", "as_dict", "source_path_map",
         "serialize_to_script_json", "head_content", "_resolve_dependencies", "html_escape", "hash_deterministic", "css", "_render_tag_or_taglist",
         "_static_extract_serialized_html_deps", "_extract_serialized_html_deps", "__init__", "__copy__", "__eq__", "append", "extend", "insert", "add_class",
         "remove_class", "add_style", "has_class", "update", "__setitem__", "consolidate_attrs", "_gen_html_tag_tree", "_hoist_head_content", "jsx_tag_create"}
NONDET_MODULES = {"random", "time", "uuid", "secrets", "datetime"}
ITER_FUNCS = {"list", "tuple", "enumerate", "zip", "map", "iter", "next", "reversed", "filter"}


def _v(name, ok, where, note):
    return Verdict(name, "discharged" if ok else "refuted", "ground", 0.0, {} if ok else {"where": where}, "", where, note, "G")


def functions(src):
    out = {}
    for m in MODULES:
        try:
            mod = src.module(m)
        except Exception:
            continue
        for n in mod.body:
            if isinstance(n, (ast.FunctionDef, ast.AsyncFunctionDef)):
                out[f"{m}.{n.name}"] = (m, n, None)
            elif isinstance(n, ast.ClassDef):
                for k in n.body:
                    if isinstance(k, (ast.FunctionDef, ast.AsyncFunctionDef)):
                        out[f"{m}.{n.name}.{k.name}"] = (m, k, n.name)
    return out


def called_names(fn):
    out = set()
    # a name bound inside the function (parameter, assignment, loop target, nested def) called as `name(...)` is a call of that local value,
    # not of the module-level function or method that happens to have the same name
    local = {a.arg for a in fn.args.posonlyargs + fn.args.args + fn.args.kwonlyargs}
    if fn.args.vararg: local.add(fn.args.vararg.arg)
    if fn.args.kwarg: local.add(fn.args.kwarg.arg)
    for n in ast.walk(fn):
        if isinstance(n, ast.Name) and isinstance(n.ctx, ast.Store):
            local.add(n.id)
        elif isinstance(n, (ast.FunctionDef, ast.AsyncFunctionDef)) and n is not fn:
            local.add(n.name)
            local |= {a.arg for a in n.args.posonlyargs + n.args.args + n.args.kwonlyargs}
    for n in ast.walk(fn):
        if isinstance(n, ast.Call):
            f = n.func
            if isinstance(f, ast.Name):
                if f.id in local:
                    continue
                out.add(f.id)
            elif isinstance(f, ast.Attribute):
                out.add(f.attr)
        elif isinstance(n, ast.Attribute) and isinstance(n.ctx, ast.Load):
            out.add(n.attr)          # bound methods passed as values (e.g. handler=self.append)
    # operators reach dunder methods
    out |= {"__add__", "__radd__", "__iadd__", "__eq__", "__setitem__", "__getitem__", "__init__", "__copy__", "__str__", "__enter__", "__exit__"}
    return out


def closure(fns):
    by_name = {}
    for q, (m, n, cls) in fns.items():
        by_name.setdefault(n.name, []).append(q)
        if cls and n.name == "__init__":
            by_name.setdefault(cls, []).append(q)
    seen, todo = set(), [q for q, (m, n, cls) in fns.items() if n.name in ROOTS]
    while todo:
        q = todo.pop()
        if q in seen:
            continue
        seen.add(q)
        for nm in called_names(fns[q][1]):
            for q2 in by_name.get(nm, []):
                if q2 not in seen:
                    todo.append(q2)
    return seen


def is_set_expr(e, setvars):
    if isinstance(e, (ast.Set, ast.SetComp)):
        return True
    if isinstance(e, ast.Call) and isinstance(e.func, ast.Name) and e.func.id in ("set", "frozenset"):
        return True
    if isinstance(e, ast.Name) and e.id in setvars:
        return True
    if isinstance(e, ast.Attribute) and e.attr in ("__optional_keys__", "__required_keys__"):
        return True          # frozensets of a TypedDict
    if isinstance(e, ast.Call) and isinstance(e.func, ast.Name) and e.func.id == "cast" and len(e.args) == 2:
        return is_set_expr(e.args[1], setvars)
    if isinstance(e, ast.BinOp) and isinstance(e.op, (ast.BitOr, ast.BitAnd, ast.Sub, ast.BitXor)):
        return is_set_expr(e.left, setvars) or is_set_expr(e.right, setvars)
    if isinstance(e, ast.Call) and isinstance(e.func, ast.Attribute) and e.func.attr in ("union", "intersection", "difference", "symmetric_difference", "copy") and is_set_expr(e.func.value, setvars):
        return True
    return False


def scan(fn, module_mutables):
    """findings: [(category, line, text)]"""
    out = []
    setvars = set()
    for n in ast.walk(fn):
        tgt = None
        if isinstance(n, ast.Assign) and len(n.targets) == 1 and isinstance(n.targets[0], ast.Name):
            tgt, val = n.targets[0].id, n.value
        elif isinstance(n, ast.AnnAssign) and isinstance(n.target, ast.Name) and n.value is not None:
            tgt, val = n.target.id, n.value
            ann = ast.unparse(n.annotation)
            if ann.lower().startswith(("set[", "set", "frozenset")):
                setvars.add(tgt)
        if tgt is not None and is_set_expr(val, setvars):
            setvars.add(tgt)
    for a in fn.args.args + fn.args.kwonlyargs:
        if a.annotation is not None and ast.unparse(a.annotation).lower().startswith(("set[", "frozenset[", "set ", "abstractset")):
            setvars.add(a.arg)

    def flag(cat, n, why):
        out.append((cat, getattr(n, "lineno", 0), why))

    for n in ast.walk(fn):
        if isinstance(n, ast.Call):
            f = n.func
            if isinstance(f, ast.Name) and f.id in ("hash", "id"):
                flag("hash-or-id", n, f"{f.id}()")
            if isinstance(f, ast.Attribute) and isinstance(f.value, ast.Name) and f.value.id in NONDET_MODULES:
                flag("hash-or-id", n, f"{f.value.id}.{f.attr}()")
            if isinstance(f, ast.Attribute) and isinstance(f.value, ast.Name) and f.value.id == "os" and f.attr in ("urandom", "getenv", "getpid", "times"):
                flag("hash-or-id", n, f"os.{f.attr}()")
            if isinstance(f, ast.Attribute) and f.attr == "__hash__":
                flag("hash-or-id", n, "__hash__()")
            # iteration contexts
            args = list(n.args) + [k.value for k in n.keywords]
            if isinstance(f, ast.Name) and f.id in ITER_FUNCS | {"dict"}:
                for a in args:
                    if is_set_expr(a, setvars):
                        flag("set-iteration", n, f"{f.id}(<set>)")
            if isinstance(f, ast.Attribute) and f.attr in ("join", "extend", "fromkeys", "update") and not is_set_expr(f.value, setvars):
                for a in args:
                    if is_set_expr(a, setvars):
                        flag("set-iteration", n, f".{f.attr}(<set>)")
            if isinstance(f, ast.Attribute) and f.attr == "pop" and is_set_expr(f.value, setvars) and not args:
                flag("set-iteration", n, "<set>.pop()")
            for a in n.args:
                if isinstance(a, ast.Starred) and is_set_expr(a.value, setvars):
                    flag("set-iteration", n, "*<set>")
            if isinstance(f, ast.Attribute) and f.attr in ("append", "add", "update", "setdefault", "pop", "clear", "extend", "insert", "remove") and isinstance(f.value, ast.Name) and f.value.id in module_mutables:
                flag("module-state", n, f"{f.value.id}.{f.attr}() on a module-level container")
        elif isinstance(n, ast.Attribute) and isinstance(n.value, ast.Name) and n.value.id == "os" and n.attr == "environ":
            flag("hash-or-id", n, "os.environ")
        elif isinstance(n, (ast.For, ast.AsyncFor)) and is_set_expr(n.iter, setvars):
            flag("set-iteration", n, "for ... in <set>")
        elif isinstance(n, ast.comprehension) and is_set_expr(n.iter, setvars):
            flag("set-iteration", n.iter, "comprehension over <set>")
        elif isinstance(n, ast.Starred) and is_set_expr(n.value, setvars):
            flag("set-iteration", n, "*<set>")
        elif isinstance(n, (ast.Global, ast.Nonlocal)) and isinstance(n, ast.Global):
            flag("module-state", n, "global " + ", ".join(n.names))
        elif isinstance(n, (ast.Assign, ast.AugAssign)):
            for t in (n.targets if isinstance(n, ast.Assign) else [n.target]):
                if isinstance(t, ast.Subscript) and isinstance(t.value, ast.Name) and t.value.id in module_mutables:
                    flag("module-state", n, f"store into module-level container {t.value.id}")
    for d in fn.decorator_list:
        ds = ast.unparse(d)
        if "cache" in ds:
            flag("module-state", d, f"@{ds}")
    return out


def module_mutables(src):
    out = {}
    for m in MODULES:
        try:
            mod = src.module(m)
        except Exception:
            continue
        for n in mod.body:
            tgt = val = None
            if isinstance(n, ast.Assign) and len(n.targets) == 1 and isinstance(n.targets[0], ast.Name):
                tgt, val = n.targets[0].id, n.value
            elif isinstance(n, ast.AnnAssign) and isinstance(n.target, ast.Name) and n.value is not None:
                tgt, val = n.target.id, n.value
            if tgt and isinstance(val, (ast.Dict, ast.List, ast.Set, ast.DictComp, ast.ListComp, ast.SetComp)) or (
                    tgt and isinstance(val, ast.Call) and _ctor_name(val.func) in MUTABLE_CTORS):
                out.setdefault(m, set()).add(tgt)
    return out


MUTABLE_CTORS = {"dict", "list", "set", "defaultdict", "OrderedDict", "WeakKeyDictionary", "WeakValueDictionary", "WeakSet", "Counter", "deque", "ChainMap", "bytearray"}


def _ctor_name(f):
    return f.id if isinstance(f, ast.Name) else f.attr if isinstance(f, ast.Attribute) else None


def module_state_findings(src, qual, contracted=()):
    """module-state findings of ONE function and of the module-level helpers it calls by bare name that are not themselves
    under a contract (those are, in effect, inlined into it): [(function, line, text)].  Used as a frame obligation of every
    function under contract - a contract states the result as a function of the arguments, which a cache or registry breaks."""
    memo = src.__dict__.setdefault("_module_state_memo", {})
    if "fns" not in memo:
        memo["fns"], memo["muts"], memo["written"] = functions(src), module_mutables(src), {}
        for q2, (m2, n2, _c) in memo["fns"].items():
            for cat, line, why in scan(n2, memo["muts"].get(m2, set())):
                if cat == "module-state" and "container" in why:
                    memo["written"].setdefault(m2, set()).update(x for x in memo["muts"].get(m2, set()) if x in why)
    fns, muts = memo["fns"], memo["muts"]
    if qual not in fns:
        return []
    todo, seen, out = [qual], set(), []
    while todo:
        q = todo.pop()
        if q in seen:
            continue
        seen.add(q)
        m, n, cls = fns[q]
        for cat, line, why in scan(n, muts.get(m, set())):
            if cat == "module-state":
                out.append((q, line, why))
        # reads of a module-level container that some function of the module mutates
        written = memo["written"].get(m, set())
        for x in ast.walk(n):
            if isinstance(x, ast.Name) and isinstance(x.ctx, ast.Load) and x.id in written:
                out.append((q, x.lineno, f"reads the module-level container {x.id}, which the module mutates"))
        for x in ast.walk(n):
            if isinstance(x, ast.Call) and isinstance(x.func, ast.Name):
                q2 = f"{m}.{x.func.id}"
                if q2 in fns and q2 not in contracted and q2 not in seen:
                    todo.append(q2)
    # one finding per (function, line)
    uniq = {}
    for q, line, why in out:
        uniq.setdefault((q, line), why)
    return [(q, line, why) for (q, line), why in sorted(uniq.items())]


def obligations(ctx):
    src = ctx.src
    fns = functions(src)
    reach = closure(fns)
    muts = module_mutables(src)
    out = []
    cats = ("hash-or-id", "set-iteration", "module-state")
    findings = {c: [] for c in cats}
    for q in sorted(reach):
        m, n, cls = fns[q]
        for cat, line, why in scan(n, muts.get(m, set())):
            findings[cat].append((q, line, why))
    out.append(_v("G:determinism:closure-nonempty", len(reach) >= 20, "htmltools", f"{len(reach)} of {len(fns)} functions are reachable from the observable APIs (by-name call graph)"))
    notes = {"hash-or-id": "no hash()/id()/random/time/uuid/os.environ on the render path", "set-iteration": "no iteration over a set (sets are only tested, added to or sorted)",
             "module-state": "no writes to module-level state and no caches on the render path"}
    for cat in cats:
        if not findings[cat]:
            out.append(_v(f"G:determinism:{cat}", True, "htmltools", f"{notes[cat]}: {len(reach)} reachable functions scanned, none flagged"))
        for q, line, why in findings[cat]:
            out.append(_v(f"G:determinism:{cat}:{q.replace('htmltools.', '')}:L{line}", False, f"{q} line {line}", f"{why} - {notes[cat]}"))
    # class-level mutable attributes (shared by every instance) that methods mutate through self
    for m in MODULES:
        try:
            mod = src.module(m)
        except Exception:
            continue
        for cls in [n for n in mod.body if isinstance(n, ast.ClassDef)]:
            shared = set()
            for n in cls.body:
                tgt = val = None
                if isinstance(n, ast.Assign) and len(n.targets) == 1 and isinstance(n.targets[0], ast.Name):
                    tgt, val = n.targets[0].id, n.value
                elif isinstance(n, ast.AnnAssign) and isinstance(n.target, ast.Name) and n.value is not None:
                    tgt, val = n.target.id, n.value
                if tgt and (isinstance(val, (ast.List, ast.Dict, ast.Set, ast.ListComp, ast.DictComp, ast.SetComp)) or
                            isinstance(val, ast.Call) and isinstance(val.func, ast.Name) and val.func.id in ("list", "dict", "set", "defaultdict")):
                    shared.add(tgt)
            for k in cls.body:
                if not isinstance(k, (ast.FunctionDef, ast.AsyncFunctionDef)) or not shared:
                    continue
                for n in ast.walk(k):
                    hit = None
                    if isinstance(n, ast.Call) and isinstance(n.func, ast.Attribute) and n.func.attr in ("append", "extend", "insert", "add", "update", "setdefault", "pop", "clear", "remove") \
                            and isinstance(n.func.value, ast.Attribute) and isinstance(n.func.value.value, ast.Name) and n.func.value.value.id in ("self", "cls", cls.name) and n.func.value.attr in shared:
                        hit = n.func.value.attr
                    if isinstance(n, (ast.Assign, ast.AugAssign)):
                        for t in (n.targets if isinstance(n, ast.Assign) else [n.target]):
                            if isinstance(t, ast.Subscript) and isinstance(t.value, ast.Attribute) and isinstance(t.value.value, ast.Name) and t.value.value.id in ("self", "cls", cls.name) and t.value.attr in shared:
                                hit = t.value.attr
                    if hit:
                        q = f"{m}.{cls.name}.{k.name}"
                        findings["module-state"].append((q, n.lineno, f"mutates the class-level container `{cls.name}.{hit}` (shared by all instances: history-dependent)"))
    for q, line, why in [x for x in findings["module-state"] if "class-level container" in x[2]]:
        out.append(_v(f"G:determinism:module-state:{q.replace('htmltools.', '')}:L{line}", False, f"{q} line {line}", why))
    # the single mutable module global
    try:
        init = src.module("htmltools")
        globs = [t.id for n in init.body if isinstance(n, (ast.Assign, ast.AnnAssign)) for t in ([n.target] if isinstance(n, ast.AnnAssign) else n.targets)
                 if isinstance(t, ast.Name) and not t.id.startswith("__")]
        out.append(_v("G:determinism:package-globals", set(globs) <= {"html_dependency_render_mode"}, "htmltools/__init__.py",
                      f"package-level variables: {globs} (only html_dependency_render_mode may influence rendering)"))
    except Exception as ex:
        out.append(_v("G:determinism:package-globals", False, "htmltools/__init__.py", f"cannot read: {ex}"))
    return out
