"""Compile Lean modules (hand-written hv/lean/HV/*.lean + generated ones) in dependency order, with
a content-addressed cache of .olean files under /verif/.work (no lake, no Mathlib: plain
`lean -o M.olean M.lean` under LEAN_PATH).  A module is rebuilt whenever its text or any transitive
dependency changed; generated modules are regenerated from /repo on every run by the caller."""
from __future__ import annotations
import hashlib, os, re, shutil, subprocess, tempfile, time, json
from dataclasses import dataclass, field

ROOT = os.path.dirname(os.path.dirname(os.path.abspath(__file__)))
WORK = os.environ.get("HV_WORK") or os.path.join(ROOT, ".work")
CACHE = os.path.join(WORK, "lean-cache")
HAND = os.path.join(ROOT, "hv", "lean")


@dataclass
class ModResult:
    module: str
    ok: bool
    seconds: float
    cached: bool
    output: str = ""
    errors: list = field(default_factory=list)      # [(line, message)]
    failed_decls: list = field(default_factory=list)
    theorems: list = field(default_factory=list)
    text_hash: str = ""
    blocked_by: str = ""


def imports_of(text):
    return [m for m in re.findall(r"^import\s+([\w.]+)", text, flags=re.M) if m.startswith("HV.")]


def decls_in(text):
    """[(line, kind, name)] for theorem/lemma/def declarations"""
    out = []
    for i, l in enumerate(text.splitlines(), 1):
        m = re.match(r"\s*(?:private\s+|protected\s+)?(theorem|lemma|def|abbrev|structure|inductive)\s+([\w.']+)", l)
        if m:
            out.append((i, m.group(1), m.group(2)))
    return out


class LeanBuild:
    def __init__(self, generated: dict[str, str] | None = None):
        """generated: module name ('HV.Spec') -> text"""
        self.texts = {}
        for fn in sorted(os.listdir(os.path.join(HAND, "HV"))):
            if fn.endswith(".lean"):
                with open(os.path.join(HAND, "HV", fn), encoding="utf-8") as f:
                    self.texts["HV." + fn[:-5]] = f.read()
        for m, t in (generated or {}).items():
            self.texts[m] = t
        self.results: dict[str, ModResult] = {}
        self._hash = {}
        os.makedirs(CACHE, exist_ok=True)
        self.rundir = tempfile.mkdtemp(prefix="run-", dir=WORK)
        os.makedirs(os.path.join(self.rundir, "HV"), exist_ok=True)

    def close(self):
        shutil.rmtree(self.rundir, ignore_errors=True)

    def mhash(self, m):
        if m not in self._hash:
            h = hashlib.sha256(self.texts[m].encode())
            for d in imports_of(self.texts[m]):
                if d not in self.texts:
                    raise KeyError(f"{m} imports unknown module {d}")
                h.update(self.mhash(d).encode())
            self._hash[m] = h.hexdigest()[:20]
        return self._hash[m]

    def closure(self, mods):
        out, seen = [], set()

        def visit(m):
            if m in seen:
                return
            seen.add(m)
            for d in imports_of(self.texts[m]):
                visit(d)
            out.append(m)
        for m in mods:
            visit(m)
        return out

    def build(self, mods, jobs=8):
        """Build the given modules and their dependencies; returns {module: ModResult}"""
        order = self.closure(mods)
        from concurrent.futures import ThreadPoolExecutor
        done = {}
        pending = list(order)
        with ThreadPoolExecutor(max_workers=jobs) as ex:
            futs = {}
            while pending or futs:
                progressed = False
                for m in list(pending):
                    deps = imports_of(self.texts[m])
                    if any(d in done and not done[d].ok for d in deps):
                        bad = next(d for d in deps if d in done and not done[d].ok)
                        done[m] = ModResult(m, False, 0.0, False, blocked_by=done[bad].blocked_by or bad,
                                            theorems=[n for _, k, n in decls_in(self.texts[m]) if k in ("theorem", "lemma")])
                        pending.remove(m)
                        progressed = True
                    elif all(d in done for d in deps):
                        futs[ex.submit(self._build_one, m)] = m
                        pending.remove(m)
                        progressed = True
                if futs:
                    from concurrent.futures import wait, FIRST_COMPLETED
                    fin, _ = wait(list(futs), return_when=FIRST_COMPLETED)
                    for f in fin:
                        m = futs.pop(f)
                        done[m] = f.result()
                elif not progressed and pending:
                    raise RuntimeError("dependency cycle among Lean modules: " + ", ".join(pending))
        self.results.update(done)
        return {m: done[m] for m in order}

    def _paths(self, m):
        rel = m.replace(".", "/")
        return os.path.join(self.rundir, rel + ".lean"), os.path.join(self.rundir, rel + ".olean")

    def _build_one(self, m) -> ModResult:
        text = self.texts[m]
        h = self.mhash(m)
        src, olean = self._paths(m)
        os.makedirs(os.path.dirname(src), exist_ok=True)
        with open(src, "w", encoding="utf-8") as f:
            f.write(text)
        cached_olean = os.path.join(CACHE, f"{m}-{h}.olean")
        cached_log = os.path.join(CACHE, f"{m}-{h}.log")
        thms = [n for _, k, n in decls_in(text) if k in ("theorem", "lemma")]
        if os.path.exists(cached_olean) and os.path.exists(cached_log):
            shutil.copyfile(cached_olean, olean)
            with open(cached_log, encoding="utf-8") as f:
                out = f.read()
            return ModResult(m, True, 0.0, True, out, theorems=thms, text_hash=h)
        t0 = time.time()
        env = dict(os.environ, LEAN_PATH=self.rundir)
        p = subprocess.run(["lean", "-o", olean, src], capture_output=True, text=True, env=env, timeout=1800)
        dt = time.time() - t0
        out = (p.stdout or "") + (p.stderr or "")
        errors = []
        for mm in re.finditer(r"^[^\n:]+\.lean:(\d+):(\d+): error:(.*?)(?=^\S+\.lean:\d+:\d+: |\Z)", out, flags=re.M | re.S):
            errors.append((int(mm.group(1)), mm.group(3).strip()[:2000]))
        ok = p.returncode == 0 and not errors and os.path.exists(olean)
        failed = []
        if errors:
            ds = decls_in(text)
            for line, _ in errors:
                owner = None
                for dl, k, n in ds:
                    if dl <= line:
                        owner = n
                if owner and owner not in failed:
                    failed.append(owner)
        if ok:
            tmp = cached_olean + f".{os.getpid()}.tmp"
            shutil.copyfile(olean, tmp)
            os.replace(tmp, cached_olean)
            with open(cached_log, "w", encoding="utf-8") as f:
                f.write(out)
        return ModResult(m, ok, dt, False, out, errors, failed, thms, h, blocked_by="" if ok else m)

    def axioms_of(self, module, theorems):
        """#print axioms for the given theorems (audit)"""
        text = f"import {module}\nopen HV\n" + "\n".join(f"#print axioms {t}" for t in theorems) + "\n"
        src = os.path.join(self.rundir, f"Audit_{module.replace('.', '_')}.lean")
        with open(src, "w") as f:
            f.write(text)
        p = subprocess.run(["lean", src], capture_output=True, text=True, env=dict(os.environ, LEAN_PATH=self.rundir), timeout=600)
        res = {}
        for mm in re.finditer(r"'([\w.']+)' (does not depend on any axioms|depends on axioms: \[([^\]]*)\])", p.stdout):
            res[mm.group(1).split(".")[-1]] = [] if mm.group(3) is None else [a.strip() for a in mm.group(3).replace("\n", " ").split(",")]
        return res, p.stdout + p.stderr

    def eval(self, module, exprs):
        """#eval each expression (A6 cross-check); returns list of output strings"""
        text = f"import {module}\nopen HV\n" + "\n".join(f"#eval {e}" for e in exprs) + "\n"
        src = os.path.join(self.rundir, f"Eval_{abs(hash(tuple(exprs)))}.lean")
        with open(src, "w") as f:
            f.write(text)
        p = subprocess.run(["lean", src], capture_output=True, text=True, env=dict(os.environ, LEAN_PATH=self.rundir), timeout=600)
        return p.stdout.strip().splitlines(), p.stderr
