"""Layer 6 of the symbolic executor: models used by dependency serialisation and HTMLTextDocument (C13), path
computations (C12) and determinism audits (C18).

A3 library models added here (each stated in the evidence):
  * re.findall / re.sub with a pattern of the exact shape  LITERAL ((?:.|\\r|\\n)*?) LITERAL  (both literals free of regex
    metacharacters): the prims reFindallLazy / reSubLazy (leftmost opening literal, first closing literal after it);
  * json.dumps(v, indent=i): the uninterpreted function jsonDumps of the structural image (JVal) of v;
  * json.loads(t) followed by HTMLDependency(**args): the uninterpreted function depOfText(t);
  * set() of strings: an insertion-ordered StrList with smember / ssnoc (iteration over it is NOT modelled: leaves the subset);
  * deepcopy(x): an equal value that shares nothing with x.
"""
from __future__ import annotations
import ast
import re as _re
import z3
from .symexec import (SV, SStr, SBool, SInt, SNone, SAdt, PySeq, PyDict, PyRec, SClass, SFunc, SBuiltin, SOpaque, Unsupported)
from .interp5 import Interp5

LAZY = r"((?:.|\r|\n)*?)"
META = set(".^$*+?{}[]\\|()")


def _unesc(s):
    return _re.sub(r"\\u\{([0-9a-fA-F]+)\}", lambda m: chr(int(m.group(1), 16)), s)


def lazy_pattern(p: str):
    """(open, close) when p is OPEN + LAZY + CLOSE with literal, non-empty OPEN and CLOSE"""
    i = p.find(LAZY)
    if i <= 0 or p.count(LAZY) != 1:
        return None
    o, c = p[:i], p[i + len(LAZY):]
    if not o or not c or any(ch in META for ch in o + c):
        return None
    return o, c


class Interp6(Interp5):
    # ---- builtins / module functions --------------------------------------------------------------------------
    def builtin_hook(self, name, pos, kw, node):
        if name in ("re.findall", "re.sub") and pos and isinstance(pos[0], SStr):
            pt = z3.simplify(pos[0].t)
            oc = lazy_pattern(_unesc(pt.as_string())) if z3.is_string_value(pt) else None
            if oc is not None:
                return self.lazy_regex(name, oc, pos, kw, node)
        return super().builtin_hook(name, pos, kw, node)

    def lazy_regex(self, name, oc, pos, kw, node):
        if True:
            o, c = z3.StringVal(oc[0]), z3.StringVal(oc[1])
            if name == "re.findall" and len(pos) == 2 and isinstance(pos[1], SStr):
                return SAdt("StrList", self.w.funcs["reFindallLazy"](o, c, pos[1].t), fresh=True, pyclass="list")
            if name == "re.sub" and len(pos) == 3 and isinstance(pos[1], SStr) and isinstance(pos[2], SStr):
                rep = z3.simplify(pos[1].t)
                if z3.is_string_value(rep) and rep.as_string() == "":
                    return SStr(self.w.funcs["reSubLazy"](o, c, pos[2].t))
            raise Unsupported(f"{name} signature")

    def builtin_hook5(self, name, pos, kw, node):
        if name == "json.dumps" and len(pos) == 1:
            ind = kw.get("indent", SNone())
            if isinstance(ind, SNone):
                it = z3.IntVal(-1)
            elif isinstance(ind, SInt):
                it = ind.t
            else:
                raise Unsupported("json.dumps indent")
            extra = set(kw) - {"indent"}
            if extra:
                raise Unsupported(f"json.dumps options {sorted(extra)}")
            return SStr(self.w.funcs["jsonDumps"](self.to_jval(pos[0]), it))
        if name == "json.loads" and len(pos) == 1 and isinstance(pos[0], SStr) and not kw:
            r = SOpaque("json.loads")
            r.text = pos[0]
            return r
        if name == "set" and not pos and not kw:
            return SAdt("StrList", self.C("SNil"), fresh=True, pyclass="set")
        if name == "deepcopy" and len(pos) == 1:
            v = pos[0]
            if isinstance(v, SAdt):
                return SAdt(v.sort, v.t, fresh=True, pyclass=v.pyclass)
            if isinstance(v, (SStr, SInt, SBool, SNone)):
                return v
        h = getattr(self, "builtin_hook6", None)
        return h(name, pos, kw, node) if h else None

    def to_jval(self, v: SV):
        "the structural JSON image of a value (dict with constant keys, str, bool, None; opaque JSON-able atoms)"
        if isinstance(v, SNone):
            return self.C("JNull")
        if isinstance(v, SBool):
            return self.C("JBool", v.t)
        if isinstance(v, SStr):
            return self.C("JStr", v.t)
        if isinstance(v, SAdt) and v.sort == "JVal":
            return v.t
        if isinstance(v, PyDict):
            t = self.C("JNil")
            for k, x in reversed(v.items):
                if not isinstance(k, SStr):
                    raise Unsupported("json.dumps of a dict with non-string keys")
                t = self.C("JCons", k.t, self.to_jval(x), t)
            return self.C("JObj", t)
        raise Unsupported(f"json.dumps of {v!r}")

    def coerce_hook6(self, v, sort):
        if sort == "DepRecList" and isinstance(v, PySeq) and v.kind == "list":
            t = self.C("RNil")
            for it in reversed(v.items):
                t = self.C("RCons", self.coerce_param(it, "DepRec").t, t)
            return SAdt("DepRecList", t, fresh=v.fresh, pyclass="list")
        h = getattr(self, "coerce_hook7", None)
        return h(v, sort) if h else None

    # ---- sets of strings, lists of reconstructed dependencies ---------------------------------------------------------
    def contains_hook5(self, container, x, node):
        if isinstance(container, SAdt) and container.sort == "StrList" and container.pyclass == "set" and isinstance(x, SStr):
            return self.F("smem", container.t, x.t)
        h = getattr(self, "contains_hook6", None)
        return h(container, x, node) if h else None

    def method_hook6(self, obj, meth, pos, kw, node):
        if isinstance(obj, SAdt) and obj.sort == "StrList" and obj.pyclass == "set" and meth == "add" and len(pos) == 1 and isinstance(pos[0], SStr):
            # a set has each element once: add is a no-op for a member
            new = z3.If(self.F("smem", obj.t, pos[0].t), obj.t, self.F("ssnoc", obj.t, pos[0].t))
            self.writeback(node.func.value, SAdt("StrList", new, fresh=True, pyclass="set"), node)
            return SNone()
        if isinstance(obj, SAdt) and obj.sort == "DepRecList" and meth == "append" and len(pos) == 1:
            d = self.coerce_param(pos[0], "DepRec")
            self.writeback(node.func.value, SAdt("DepRecList", self.F("rsnoc", obj.t, d.t), fresh=True, pyclass="list"), node)
            return SNone()
        h = getattr(self, "method_hook7", None)
        return h(obj, meth, pos, kw, node) if h else None

    def construct_hook5(self, cls, pos, kw, node):
        from .calls import Star
        st = kw.get("**")
        if cls == "HTMLDependency" and not pos and set(kw) == {"**"} and isinstance(st, Star) and isinstance(st.v, SOpaque) and st.v.what == "json.loads":
            return SAdt("DepRec", self.w.funcs["depOfText"](st.v.text.t), fresh=True, pyclass="HTMLDependency")
        h = getattr(self, "construct_hook6", None)
        return h(cls, pos, kw, node) if h else None

    def get_attr(self, obj, attr, node):
        if isinstance(obj, SBuiltin) and obj.bound is None and obj.name == "copy" and attr in ("copy", "deepcopy"):
            return SBuiltin(attr)           # `import copy; copy.copy(x)`
        return super().get_attr(obj, attr, node)

    def str_of(self, v, node=None):
        if isinstance(v, SBool):
            return SStr(z3.If(v.t, z3.StringVal("True"), z3.StringVal("False")) if not (z3.is_true(v.t) or z3.is_false(v.t)) else z3.StringVal("True" if z3.is_true(v.t) else "False"))
        return super().str_of(v, node)

    # ---- hashlib.sha1(s.encode("utf-8")).hexdigest() (C18) ----------------------------------------------------------
    def str_method_hook(self, s, meth, pos, kw, node):
        if meth == "encode" and len(pos) <= 2 and set(kw) <= {"errors", "encoding"}:
            e0 = pos[0] if pos else kw.get("encoding")
            enc = z3.simplify(e0.t).as_string() if isinstance(e0, SStr) and z3.is_string_value(z3.simplify(e0.t)) else "utf-8"
            er = pos[1] if len(pos) > 1 else kw.get("errors")
            policy = z3.simplify(er.t).as_string() if isinstance(er, SStr) and z3.is_string_value(z3.simplify(er.t)) else ("strict" if er is None else "?")
            if enc.lower().replace("_", "-") in ("utf-8", "utf8"):
                # strict encoding is injective; any other error policy (replace / ignore / ...) maps distinct strings to the same bytes
                r = SOpaque("bytes:utf-8" if policy == "strict" else "bytes:utf-8:lossy")
                r.text = s
                return r
            raise Unsupported(f"str.encode({enc!r})")
        return super().str_method_hook(s, meth, pos, kw, node)

    def builtin_hook6(self, name, pos, kw, node):
        if name == "hashlib.sha1" and len(pos) == 1 and isinstance(pos[0], SOpaque) and pos[0].what.startswith("bytes:utf-8") and not kw:
            r = SOpaque("sha1" if pos[0].what == "bytes:utf-8" else "sha1:lossy")
            r.text = pos[0].text
            return r
        if name in ("hash", "id") or name.startswith(("random.", "time.", "uuid.")):
            raise Unsupported(f"{name}(): process- or history-dependent value (outside the deterministic subset)")
        h = getattr(self, "builtin_hook7", None)
        return h(name, pos, kw, node) if h else None

    def method_hook7(self, obj, meth, pos, kw, node):
        if isinstance(obj, SOpaque) and obj.what == "sha1" and meth == "hexdigest" and not pos and not kw:
            return SStr(self.w.funcs["sha1hex"](obj.text.t))
        if isinstance(obj, SOpaque) and obj.what == "sha1:lossy" and meth == "hexdigest" and not pos and not kw:
            # the digest of a lossy encoding: some other function of the string (not the injective-on-content digest the contract names)
            f = z3.Function("sha1hex_of_lossy_encoding", z3.StringSort(), z3.StringSort())
            return SStr(f(obj.text.t))
        h = getattr(self, "method_hook8", None)
        return h(obj, meth, pos, kw, node) if h else None

    def construct_hook6(self, cls, pos, kw, node):
        if cls == "HTMLDependency" and not pos and set(kw) <= {"name", "version", "head", "source", "script", "stylesheet", "meta", "all_files"} and "name" in kw and "version" in kw and "**" not in kw:
            # record view of a dependency built from keyword arguments (validation of script/stylesheet/meta dicts is C10's bounded part)
            if set(kw) <= {"name", "version", "head"}:
                return PyRec("HTMLDependency", dict(kw), fresh=True)
        h = getattr(self, "construct_hook7", None)
        return h(cls, pos, kw, node) if h else None
