"""Layer 9 of the symbolic executor: methods of record objects executed through their real bodies, exception messages.

  self.method(args) on a record object whose class has that method in /repo and no contract: the method's body is executed in place
      (the same rule as for small helper functions without a contract);
  raise Exc(f"... {anything} ..."): the message is not part of any contract; when it cannot be evaluated in the subset the
      exception is raised without it;
  Version(s): an opaque version object (its order image is an uninterpreted Int, A3)."""
from __future__ import annotations
import ast
import z3
from .symexec import (SV, SStr, SBool, SInt, SNone, SAdt, PySeq, PyDict, PyRec, SClass, SFunc, SBuiltin, SOpaque, SExc, Unsupported, _Raise)
from .interp8 import Interp8


class Interp9(Interp8):
    def method_hook9(self, obj, meth, pos, kw, node):
        if isinstance(obj, PyRec) and getattr(self, "inline_record_methods", False):
            q = f"htmltools._core.{obj.cls}.{meth}"
            if self.src.has(q) and not self.contracts.has(q):
                from .calls import inline_call
                return inline_call(self, q, [obj] + list(pos), kw, node)
        h = getattr(self, "method_hook10", None)
        return h(obj, meth, pos, kw, node) if h else None

    def len_of(self, x, node):
        if isinstance(x, SAdt) and x.sort == "Child" and self.implied(self.is_c("CSeq", x.t)):
            return SInt(self.F("clen", self.acc("CSeq", "items", x.t)), nat=True)          # len(list / tuple / TagList argument)
        return super().len_of(x, node)

    def stmt_Raise(self, s):
        if s.exc is not None and isinstance(s.exc, ast.Call) and isinstance(s.exc.func, ast.Name):
            cls = self.eval(s.exc.func)
            if isinstance(cls, SClass):
                try:
                    return super().stmt_Raise(s)
                except Unsupported:
                    raise _Raise(SExc(cls.name, []), s.lineno)      # the message could not be built in the subset: raise without it
        return super().stmt_Raise(s)

    def construct_hook8(self, cls, pos, kw, node):
        if cls == "Version" and len(pos) == 1 and not kw:
            v = SInt(self.fresh("Int", "version_of"))
            v.is_version = True
            return v
        h = getattr(self, "construct_hook9", None)
        return h(cls, pos, kw, node) if h else None
