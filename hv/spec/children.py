"""L1 specs for child normalisation (C14): the user-facing argument universe `Child`, depth-first
flattening, conversion to stored nodes, and the list operations of TagList / Tag."""
from ..speclang import adt, spec, abstract, prim, Str, Int, Nat, Bool
from .render import (Txt, Raw, Md, Rp, Ob, El, NNil, NCons, nappend)
from .strings import strOfInt, mod3
from .attrs import strOfFloat

# what a caller may pass as a child
adt(Child=dict(CNone={},                       # None
               CInt=dict(n=Int),               # int (not bool)
               CFloat=dict(fid=Int),           # float (opaque atom)
               CBoolC=dict(b=Bool),            # bool (an int for isinstance)
               CNode=dict(node="Node"),        # a valid tag node: str, HTML, Tag, MetadataNode, _repr_html_/tagify object
               CSeq=dict(kind=Int, items="ChildList"),   # list (0) / tuple (1) / TagList (2): spliced
               CBad=dict(oid=Int)),            # anything else (dict, set, arbitrary object, other Sequence types)
    ChildList=dict(CNil={}, CCons=dict(hd="Child", tl="ChildList")))


@spec
def csnoc(l: "ChildList", c: "Child") -> "ChildList":
    match l:
        case CNil():
            return CCons(c, CNil())
        case CCons(h, t):
            return CCons(h, csnoc(t, c))


@spec
def cappend(a: "ChildList", b: "ChildList") -> "ChildList":
    match a:
        case CNil():
            return b
        case CCons(h, t):
            return CCons(h, cappend(t, b))


@spec
def flatInto(xs: "ChildList", acc: "ChildList") -> "ChildList":
    "_flatten_recurse(xs, acc): acc extended by the depth-first, left-to-right atoms of xs"
    match xs:
        case CNil():
            return acc
        case CCons(c, r):
            return flatInto(r, flatStep(acc, c))


@spec
def flatStep(acc: "ChildList", c: "Child") -> "ChildList":
    match c:
        case CSeq(k, items):
            return flatInto(items, acc)
        case CNone():
            return acc
        case _:
            return csnoc(acc, c)


@spec
def flatC(xs: "ChildList") -> "ChildList":
    "flatten(xs): nested lists, tuples and TagLists spliced, None dropped, everything else kept whole"
    return flatInto(xs, CNil())


@spec
def isNodeC(c: "Child") -> Bool:
    "is_tag_node"
    match c:
        case CNode(n):
            return True
        case _:
            return False


@spec
def isNumC(c: "Child") -> Bool:
    "isinstance(c, (int, float))"
    match c:
        case CInt(n):
            return True
        case CFloat(f):
            return True
        case CBoolC(b):
            return True
        case _:
            return False


@spec
def numText(c: "Child") -> Str:
    "str(c) for a number"
    match c:
        case CInt(n):
            return strOfInt(n)
        case CFloat(f):
            return strOfFloat(f)
        case CBoolC(b):
            return "True" if b else "False"
        case _:
            return ""


@spec
def conv(c: "Child") -> "Node":
    "numbers become their str() text, nodes are kept"
    match c:
        case CNode(n):
            return n
        case _:
            return Txt(numText(c))


@spec
def convStep(c: "Child") -> "Child":
    "the in-place step of _tagchilds_to_tagnodes: result[i] = str(item) for numbers"
    if isNumC(c):
        return CNode(Txt(numText(c)))
    return c


@spec
def mapConvStep(l: "ChildList") -> "ChildList":
    match l:
        case CNil():
            return CNil()
        case CCons(c, r):
            return CCons(convStep(c), mapConvStep(r))


@spec
def anyBadAtom(l: "ChildList") -> Bool:
    "some flattened item is neither a number nor a tag node: TypeError"
    match l:
        case CNil():
            return False
        case CCons(c, r):
            return (not isNumC(c) and not isNodeC(c)) or anyBadAtom(r)


@spec
def toNodes(l: "ChildList") -> "NodeList":
    "a list whose items are all tag nodes, as the stored NodeList"
    match l:
        case CNil():
            return NNil()
        case CCons(c, r):
            return NCons(conv(c), toNodes(r))


@spec
def allNodesC(l: "ChildList") -> Bool:
    match l:
        case CNil():
            return True
        case CCons(c, r):
            return isNodeC(c) and allNodesC(r)


@spec
def ofNodes(l: "NodeList") -> "ChildList":
    "a stored child list seen as arguments (TagList passed as a child, slicing, copy)"
    match l:
        case NNil():
            return CNil()
        case NCons(n, r):
            return CCons(CNode(n), ofNodes(r))


@spec
def nodes(xs: "ChildList") -> "NodeList":
    "the children stored for the arguments xs"
    return toNodes(mapConvStep(flatC(xs)))


@spec
def bad(xs: "ChildList") -> Bool:
    "the arguments contain, at some depth, something that is not a child: TypeError"
    return anyBadAtom(flatC(xs))


@spec
def iterArg(x: "Child") -> "ChildList":
    "an `Iterable[TagChild]` argument seen as the list of its items (a str is one item)"
    match x:
        case CSeq(k, items):
            return items
        case _:
            return CCons(x, CNil())


@spec
def isTagChild(c: "Child") -> Bool:
    "what the property demands of is_tag_child: every value the operations accept"
    match c:
        case CBad(o):
            return False
        case _:
            return True


# ---- list surgery on stored children -----------------------------------------------------------------
@spec
def nlen(l: "NodeList") -> Int:
    match l:
        case NNil():
            return 0
        case NCons(c, r):
            return 1 + nlen(r)


@spec
def ninsertAt(l: "NodeList", i: Int, xs: "NodeList") -> "NodeList":
    "l[:i] + xs + l[i:] for i >= 0 (i beyond the end appends)"
    if i <= 0:
        return nappend(xs, l)
    match l:
        case NNil():
            return xs
        case NCons(c, r):
            return NCons(c, ninsertAt(r, i - 1, xs))


@spec
def ninsert(l: "NodeList", i: Int, xs: "NodeList") -> "NodeList":
    "list slice assignment l[i:i] = xs with Python's index clamping (negative i counts from the end)"
    if i >= 0:
        return ninsertAt(l, i, xs)
    return ninsertAt(l, nlen(l) + i, xs)


@spec
def isTagListC(c: "Child") -> Bool:
    match c:
        case CSeq(k, items):
            return mod3(k) == 2
        case _:
            return False


@spec
def isIterArg(c: "Child") -> Bool:
    "an Iterable[TagChild] argument: a list / tuple / TagList, or a single str"
    match c:
        case CSeq(k, items):
            return True
        case CNode(Txt(s)):
            return True
        case _:
            return False


@spec
def implies(a: Bool, b: Bool) -> Bool:
    return (not a) or b


@spec
def kidsOf(t: "Node") -> "NodeList":
    match t:
        case El(n, ws, a, kids):
            return kids
        case _:
            return NNil()


@spec
def withKids(t: "Node", ks: "NodeList") -> "Node":
    "the same tag with its child list replaced"
    match t:
        case El(n, ws, a, kids):
            return El(n, ws, a, ks)
        case _:
            return t


@spec
def isAtomChild(c: "Child") -> Bool:
    "neither None nor a list/tuple/TagList: what flattening leaves"
    match c:
        case CNone():
            return False
        case CSeq(k, items):
            return False
        case _:
            return True


@spec
def allAtomChildren(l: "ChildList") -> Bool:
    match l:
        case CNil():
            return True
        case CCons(c, r):
            return isAtomChild(c) and allAtomChildren(r)


@spec
def isCNil(l: "ChildList") -> Bool:
    match l:
        case CNil():
            return True
        case CCons(c, r):
            return False


@spec
def clen(l: "ChildList") -> Int:
    "len() of a list / tuple argument (its items, before flattening)"
    match l:
        case CNil():
            return 0
        case CCons(c, r):
            return 1 + clen(r)
