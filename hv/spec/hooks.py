"""L1 spec of the Tag context manager and the display hook chain (C17): state transformers for
__enter__, __exit__ and the wrapped hook, and the semantics of programs made of nested `with tag:` blocks
(assumption A4: `with` calls __exit__ on every exit of the block iff __enter__ returned)."""
from ..speclang import adt, spec, abstract, prim, Str, Int, Nat, Bool

# a display hook: the hook that was installed outside of all blocks, or the wrapper installed by tag t's __enter__
adt(Hook=dict(HBase={}, HWrap=dict(t=Int)))
adt(OptHook=dict(NoHook={}, SomeHook=dict(h="Hook")))
# a displayed value, as far as the hook wrapper distinguishes them
adt(DVal=dict(DNone={},               # None
              DEllipsis={},           # ...
              DTagLike=dict(v=Int),   # Tag / TagList / object with tagify(): passed through
              DTagRef=dict(t=Int),    # the Tag object t itself (delivered by its __exit__)
              DRepr=dict(v=Int),      # object with _repr_html_ (no tagify): wrapped in HTML(...)
              DOther=dict(v=Int, ok=Bool)))   # anything else: ok = append accepts it (str, number, list of children...), else TypeError
# what ends up in a child list / at the outer hook
adt(Item=dict(IVal=dict(v=Int), ITag=dict(t=Int), IHtmlOf=dict(v=Int)))
adt(ItemList=dict(INil={}, ICons=dict(hd="Item", tl="ItemList")))
# per-tag state: saved hook (prev_displayhook) and appended children
adt(TagSt=dict(TagSt=dict(pdh="OptHook", kids="ItemList")))
adt(TagMap=dict(TMNil={}, TMCons=dict(t=Int, st="TagSt", tl="TagMap")))
adt(World=dict(World=dict(hook="Hook", tags="TagMap", outer="ItemList")))   # outer = what reached the base hook, in order
adt(Prog=dict(PSkip={}, PDisplay=dict(v="DVal"), PRaise={}, PWith=dict(t=Int, body="Prog"), PSeq=dict(a="Prog", b="Prog")))
adt(Res=dict(Res=dict(w="World", raised=Bool)))


@spec
def isnoc(l: "ItemList", x: "Item") -> "ItemList":
    match l:
        case INil():
            return ICons(x, INil())
        case ICons(h, t):
            return ICons(h, isnoc(t, x))


@spec
def tget(m: "TagMap", t: Int) -> "TagSt":
    "state of tag t (a tag never seen before has no saved hook and no children)"
    match m:
        case TMNil():
            return TagSt(NoHook(), INil())
        case TMCons(t2, st, tl):
            if t2 == t:
                return st
            return tget(tl, t)


@spec
def tset(m: "TagMap", t: Int, st: "TagSt") -> "TagMap":
    match m:
        case TMNil():
            return TMCons(t, st, TMNil())
        case TMCons(t2, st2, tl):
            if t2 == t:
                return TMCons(t2, st, tl)
            return TMCons(t2, st2, tset(tl, t, st))


@spec
def appendKid(w: "World", t: Int, x: "Item") -> "World":
    return World(w.hook, tset(w.tags, t, TagSt(tget(w.tags, t).pdh, isnoc(tget(w.tags, t).kids, x))), w.outer)


# ---- the wrapped hook (wrap_displayhook_handler(tag.append)) --------------------------------------------------
@spec
def wrapAccepts(v: "DVal") -> Bool:
    "the wrapper forwards the value and tag.append accepts it"
    match v:
        case DNone():
            return True
        case DEllipsis():
            return True
        case DOther(x, ok):
            return ok
        case _:
            return True


@spec
def itemOf(v: "DVal") -> "Item":
    match v:
        case DTagRef(t):
            return ITag(t)
        case DRepr(x):
            return IHtmlOf(x)
        case DTagLike(x):
            return IVal(x)
        case DOther(x, ok):
            return IVal(x)
        case _:
            return IVal(0)


@spec
def dropped(v: "DVal") -> Bool:
    "None and Ellipsis are ignored by the wrapper"
    match v:
        case DNone():
            return True
        case DEllipsis():
            return True
        case _:
            return False


@spec
def deliver(w: "World", v: "DVal") -> "Res":
    "sys.displayhook(v) in world w"
    match w.hook:
        case HBase():
            return Res(World(w.hook, w.tags, isnoc(w.outer, itemOf(v))), False)
        case HWrap(t):
            if dropped(v):
                return Res(w, False)
            if not wrapAccepts(v):
                return Res(w, True)
            return Res(appendKid(w, t, itemOf(v)), False)


# ---- __enter__ / __exit__ ---------------------------------------------------------------------------------
@spec
def isActive(w: "World", t: Int) -> Bool:
    "tag t has been entered (its saved hook is set)"
    match tget(w.tags, t).pdh:
        case NoHook():
            return False
        case SomeHook(h):
            return True


@spec
def enterW(w: "World", t: Int) -> "World":
    "Tag.__enter__ when it does not raise: save the current hook, install the wrapper"
    return World(HWrap(t), tset(w.tags, t, TagSt(SomeHook(w.hook), tget(w.tags, t).kids)), w.outer)


@spec
def savedHook(w: "World", t: Int) -> "Hook":
    match tget(w.tags, t).pdh:
        case NoHook():
            return HBase()
        case SomeHook(h):
            return h


@spec
def exitW(w: "World", t: Int) -> "Res":
    "Tag.__exit__: restore the saved hook FIRST, then hand the tag to it"
    return deliver(World(savedHook(w, t), w.tags, w.outer), DTagRef(t))


# ---- programs of nested with-blocks ------------------------------------------------------------------------
@spec
def execP(p: "Prog", w: "World") -> "Res":
    match p:
        case PSkip():
            return Res(w, False)
        case PDisplay(v):
            return deliver(w, v)
        case PRaise():
            return Res(w, True)
        case PSeq(a, b):
            ra = execP(a, w)
            if ra.raised:
                return ra
            return execP(b, ra.w)
        case PWith(t, body):
            if isActive(w, t):
                return Res(w, True)
            rb = execP(body, enterW(w, t))
            rx = exitW(rb.w, t)
            return Res(rx.w, rb.raised or rx.raised)
