"""L1 spec of dependency serialisation and HTMLTextDocument (C13): the JSON <script> form of a dependency, the
neutralisation of end-tag openers, lazy-regex extraction, de-duplication by text and first-occurrence replacement."""
from ..speclang import adt, spec, abstract, prim, Str, Int, Nat, Bool
from .strings import replaceAll, replaceN, contains
from .render import (Txt, El, NNil, NCons, ANil, ACons, Plain, rlistTop, nappend)
from .layout import SNil, SCons
from .helpers import smem
from .tagify import DLNil, DLCons, Rendered, tagifyL
from .render import hasObL
from .document import headExtra, verStr

# a JSON-able value as far as serialize_to_script_json distinguishes them (lists / dicts of the dependency are opaque atoms)
adt(JVal=dict(JNull={}, JBool=dict(b=Bool), JStr=dict(s=Str), JOpq=dict(id=Int), JObj=dict(items="JItems")),
    JItems=dict(JNil={}, JCons=dict(k=Str, v="JVal", tl="JItems")))
adt(OptNL=dict(NoNL={}, SomeNL=dict(l="NodeList")))
# the fields of an HTMLDependency object read by serialize_to_script_json
adt(DepRec=dict(DepRec=dict(name=Str, ver=Int, sourceId=Int, scriptId=Int, styleId=Int, metaId=Int, allFiles=Bool, head="OptNL")))


@abstract(group="env")
def jsonDumps(v: "JVal", indent: Int) -> Str:
    "json.dumps(v, indent=indent) (external; indent is the identity of the indent argument)"
    return BIND_S["jsonDumps"](v, indent)


def _dumps(v, indent):
    import json

    def py(v):
        k = type(v).__name__
        if k == "JNull": return None
        if k == "JBool": return v.b
        if k == "JStr": return v.s
        if k == "JOpq": return [v.id]
        out, it = {}, v.items
        while type(it).__name__ == "JCons":
            out[it.k] = py(it.v)
            it = it.tl
        return out
    return json.dumps(py(v), indent=None if indent < 0 else indent % 5)


BIND_S = {"jsonDumps": _dumps}


@spec
def neutral(t: Str) -> Str:
    "every end-tag opener '</' becomes '<\\/' (a JSON escape of the same text)"
    return replaceAll(t, "</", "<\\/")


@spec
def headJson(h: "OptNL") -> "JVal":
    "Tags cannot be serialised to JSON: the head is rendered to markup"
    match h:
        case NoNL():
            return JNull()
        case SomeNL(l):
            return JStr(rlistTop(l, 0, "\n", True, True))


@spec
def depJson(d: "DepRec") -> "JVal":
    "the dict handed to json.dumps: eight keys in this order"
    match d:
        case DepRec(nm, ver, so, sc, st, me, af, hd):
            return JObj(JCons("name", JStr(nm), JCons("version", JStr(verStr(ver)), JCons("source", JOpq(so), JCons("script", JOpq(sc),
                        JCons("stylesheet", JOpq(st), JCons("meta", JOpq(me), JCons("all_files", JBool(af),
                        JCons("head", headJson(hd), JNil())))))))))


@spec
def serialText(d: "DepRec", indent: Int) -> Str:
    return neutral(jsonDumps(depJson(d), indent))


@spec
def serialTag(d: "DepRec", indent: Int) -> "Node":
    'Tag("script", text, type="application/json", data_html_dependency=True)'
    return El("script", True, ACons("type", Plain("application/json"), ACons("data-html-dependency", Plain(""), ANil())),
              NCons(Txt(serialText(d, indent)), NNil()))


# ---- extraction ---------------------------------------------------------------------------------------------
@prim(lean="reFindallLazy")
def reFindallLazy(o: Str, c: Str, s: Str) -> "StrList":
    "re.findall(re.escape(o) + '((?:.|\\r|\\n)*?)' + re.escape(c), s): the texts between each o and the first c after it"
    import re
    out = SNil()
    for m in reversed(re.findall(re.escape(o) + r"((?:.|\r|\n)*?)" + re.escape(c), s)):
        out = SCons(m, out)
    return out


@prim(lean="reSubLazy")
def reSubLazy(o: Str, c: Str, s: Str) -> Str:
    "re.sub(<the same pattern>, '', s)"
    import re
    return re.sub(re.escape(o) + r"((?:.|\r|\n)*?)" + re.escape(c), "", s)


@spec
def ssnoc(l: "StrList", x: Str) -> "StrList":
    match l:
        case SNil():
            return SCons(x, SNil())
        case SCons(h, t):
            return SCons(h, ssnoc(t, x))


@spec
def dedupStep(acc: "StrList", x: Str) -> "StrList":
    if smem(acc, x):
        return acc
    return ssnoc(acc, x)


@spec
def dedupFold(l: "StrList", acc: "StrList") -> "StrList":
    "distinct texts in order of first appearance"
    match l:
        case SNil():
            return acc
        case SCons(x, r):
            return dedupFold(r, dedupStep(acc, x))


adt(DepRecList=dict(RNil={}, RCons=dict(hd="DepRec", tl="DepRecList")))


@abstract(group="env")
def depOfText(t: Str) -> "DepRec":
    "HTMLDependency(**json.loads(t)) (external: json.loads and the constructor's validation)"
    return BIND_S["depOfText"](t)


BIND_S["depOfText"] = lambda t: DepRec(t, 0, 0, 0, 0, 0, False, NoNL())


@spec
def depsOfTexts(l: "StrList") -> "DepRecList":
    match l:
        case SNil():
            return RNil()
        case SCons(x, r):
            return RCons(depOfText(x), depsOfTexts(r))


@spec
def rsnoc(l: "DepRecList", d: "DepRec") -> "DepRecList":
    match l:
        case RNil():
            return RCons(d, RNil())
        case RCons(h, t):
            return RCons(h, rsnoc(t, d))


OPEN_S = '<script type="application/json" data-html-dependency="">'
CLOSE_S = "</script>"


@spec
def extractTexts(html: Str) -> "StrList":
    return dedupFold(reFindallLazy('<script type="application/json" data-html-dependency="">', "</script>", html), SNil())


@spec
def extractHtml(html: Str) -> Str:
    return reSubLazy('<script type="application/json" data-html-dependency="">', "</script>", html)


# ---- HTMLTextDocument.render --------------------------------------------------------------------------------
@spec
def textDocHtml(html: Str, pat: Str, ds: "DepList", lp: "OptStr", iv: Bool) -> Str:
    "only the first occurrence of the placeholder is replaced, by the rendering of what HTMLDocument would append to <head>"
    return replaceN(html, pat, rlistTop(tagifyL(headExtra(ds, lp, iv)), 0, "\n", True, True), 1)


@spec
def textDocRaises(ds: "DepList", lp: "OptStr", iv: Bool) -> Bool:
    "dependency markup that still contains an un-expandable object cannot be rendered"
    return hasObL(tagifyL(headExtra(ds, lp, iv)))


# ---- head_content naming (C18) ------------------------------------------------------------------------------
@abstract(group="env")
def sha1hex(s: Str) -> Str:
    "hashlib.sha1(s.encode('utf-8')).hexdigest() (external; injectivity on the inputs met is an assumption)"
    return BIND_S["sha1hex"](s)


def _sha1(s):
    import hashlib
    return hashlib.sha1(s.encode("utf-8")).hexdigest()


BIND_S["sha1hex"] = _sha1


@spec
def headName(l: "NodeList") -> Str:
    "the name of head_content(*args): a function of the rendered content only"
    return "headcontent_" + sha1hex(rlistTop(l, 0, "\n", True, True))
