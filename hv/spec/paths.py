"""L1 spec of dependency URLs and copy targets (C12)."""
from ..speclang import adt, spec, abstract, prim, Str, Int, Nat, Bool
from .layout import NoStr, SomeStr
from .document import verStr


@prim(lean="pjoin")
def pjoin(a: Str, b: Str) -> Str:
    "posixpath.join(a, b)"
    import posixpath
    return posixpath.join(a, b)


@abstract(group="env")
def quoteUrl(s: Str) -> Str:
    "urllib.parse.quote(s) (external; unquote(quote(s)) == s is an assumption)"
    return BIND_P["quoteUrl"](s)


def _quote(s):
    import urllib.parse
    return urllib.parse.quote(s)


BIND_P = {"quoteUrl": _quote}


@spec
def depDirName(name: Str, ver: Int, iv: Bool) -> Str:
    "name[-version]: the directory of a dependency under the lib prefix / destination"
    if iv:
        return name + "-" + verStr(ver)
    return name


@spec
def srcHref(name: Str, ver: Int, lp: "OptStr", iv: Bool) -> Str:
    "the href of a local dependency: [prefix/]name[-version]"
    match lp:
        case NoStr():
            return depDirName(name, ver, iv)
        case SomeStr(p):
            if p == "":
                return depDirName(name, ver, iv)
            return pjoin(p, depDirName(name, ver, iv))


@spec
def fileUrl(href: Str, path: Str) -> Str:
    "URL of one script / stylesheet: href/percent-encoded relative path"
    return pjoin(href, quoteUrl(path))


# ---- external path functions (uninterpreted; their algebra is assumed only where a theorem states it) -------------
@abstract(group="env")
def osJoin(a: Str, b: Str) -> Str:
    "os.path.join(a, b)"
    return BIND_P["osJoin"](a, b)


@abstract(group="env")
def parentDir(f: Str) -> Str:
    "str(Path(f).resolve().parent)"
    return BIND_P["parentDir"](f)


@abstract(group="env")
def realPath(p: Str) -> Str:
    "os.path.realpath(p)"
    return BIND_P["realPath"](p)


@abstract(group="env")
def pkgDir(pkg: Str) -> Str:
    "package_dir(pkg): the directory of an installed package"
    return BIND_P["pkgDir"](pkg)


def _bind_paths():
    import os
    BIND_P.update({"osJoin": os.path.join, "parentDir": lambda f: os.path.dirname(os.path.realpath(f)), "realPath": os.path.realpath, "pkgDir": lambda p: "/pkg/" + p})


_bind_paths()


@spec
def saveDest(file: Str, libdir: "OptStr") -> Str:
    "where save_html copies dependencies: the file's directory, plus libdir when given"
    match libdir:
        case NoStr():
            return parentDir(file)
        case SomeStr(l):
            if l == "":
                return parentDir(file)
            return osJoin(parentDir(file), l)
