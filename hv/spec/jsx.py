"""L1 spec of the JSX helpers under contract (C20): JavaScript string literals."""
from ..speclang import adt, spec, abstract, prim, Str, Int, Nat, Bool
from .strings import replaceAll, rep


@spec
def jsStr(s: Str) -> Str:
    'a double-quoted JavaScript string literal:  "  +  s with every double quote escaped  +  "'
    return '"' + replaceAll(s, '"', '\\"') + '"'


@spec
def jsLeaf(s: Str, indent: Nat) -> Str:
    "a string child inside React.createElement(...): the literal at the current indentation"
    return rep("  ", indent) + jsStr(s)
