"""L1 spec of the renderer cluster (DESIGN §7 'The renderer cluster').

Single source: this file runs as Python, is emitted to z3 (hv.emit_z3) and to Lean 4 (hv.emit_lean).
It is written from the property statements and the call structure of the code, factored so that the
non-recursive work (`tagFrame`, `rl_step`) is outside the two-line mutual recursion `rtag`/`rlist`.
"""
from ..speclang import adt, spec, abstract, prim, Str, Int, Nat, Bool

# ---------------------------------------------------------------------------------------------------
# sorts
# ---------------------------------------------------------------------------------------------------
adt(AttrVal=dict(Plain=dict(s=Str), RawV=dict(s=Str)))          # str | HTML as stored attribute value
adt(AttrList=dict(ANil={}, ACons=dict(k=Str, v="AttrVal", tl="AttrList")))   # insertion-ordered dict
# a dependency / metadata payload: isdep=False for a plain MetadataNode; ver is the image of the
# packaging.Version order in Int (abstract strict total order, A3); uid distinguishes content
adt(Dep=dict(Dep=dict(isdep=Bool, name=Str, ver=Int, uid=Int)))
adt(Node=dict(Txt=dict(s=Str),            # str
              Raw=dict(s=Str),            # HTML(...)
              Md=dict(d="Dep"),           # MetadataNode / HTMLDependency
              Rp=dict(s=Str, oid=Int),    # object oid whose _repr_html_() returns s (may also have tagify())
              Ob=dict(oid=Int),           # object oid with tagify() only: must be expanded before rendering
              El=dict(name=Str, ws=Bool, attrs="AttrList", kids="NodeList")),   # Tag
    NodeList=dict(NNil={}, NCons=dict(hd="Node", tl="NodeList")))
adt(St=dict(St=dict(html=Str, first=Bool, prev=Bool)))  # loop state of TagList.get_html_string

# ---------------------------------------------------------------------------------------------------
# parameters (bound per run from the constants read in /repo; theorems hold for every Cfg)
# ---------------------------------------------------------------------------------------------------
BIND = {}


@abstract
def escT(s: Str) -> Str:
    "html_escape(s, attr=False)"
    return BIND["escT"](s)


@abstract
def escA(s: Str) -> Str:
    "html_escape(s, attr=True)"
    return BIND["escA"](s)


@abstract
def isVoid(n: Str) -> Bool:
    "n in _VOID_TAG_NAMES"
    return BIND["isVoid"](n)


@abstract
def noEsc(n: Str) -> Bool:
    "n in _NO_ESCAPE_TAG_NAMES"
    return BIND["noEsc"](n)


from .strings import ind, rep  # noqa: E402


# ---------------------------------------------------------------------------------------------------
# attributes
# ---------------------------------------------------------------------------------------------------
@spec
def renderAttr(v: "AttrVal") -> Str:
    match v:
        case Plain(s):
            return escA(s)
        case RawV(s):
            return s


@spec
def attrFold(a: "AttrList", acc: Str) -> Str:
    "the attribute-writing loop of Tag.get_html_string as a left fold"
    match a:
        case ANil():
            return acc
        case ACons(k, v, tl):
            return attrFold(tl, acc + " " + k + '="' + renderAttr(v) + '"')


# ---------------------------------------------------------------------------------------------------
# children
# ---------------------------------------------------------------------------------------------------
@spec
def isMeta(c: "Node") -> Bool:
    match c:
        case Md(_):
            return True
        case _:
            return False


@spec
def nonMeta(l: "NodeList") -> "NodeList":
    match l:
        case NNil():
            return NNil()
        case NCons(c, r):
            if isMeta(c):
                return nonMeta(r)
            return NCons(c, nonMeta(r))


@spec
def closeT(n: Str) -> Str:
    return "</" + n + ">"


@spec
def tagFrame(n: Str, ws: Bool, open_: Str, ks: "NodeList", inner: Str, i: Nat, eol: Str) -> Str:
    """non-recursive frame of Tag.get_html_string: open_ = indent ++ '<' ++ name ++ attributes,
    ks = the non-metadata children, inner = rendering of the child list"""
    match ks:
        case NNil():
            if isVoid(n):
                return open_ + "/>"
            return open_ + ">" + closeT(n)
        case NCons(Txt(s), NNil()):
            if noEsc(n):
                return open_ + ">" + s + closeT(n)
            return open_ + ">" + escT(s) + closeT(n)
        case NCons(Raw(s), NNil()):
            return open_ + ">" + s + closeT(n)
        case _:
            return open_ + ">" + (eol if ws else "") + inner + ((eol + ind(i)) if ws else "") + closeT(n)


@spec
def sep(first: Bool, p: Bool, eol: Str) -> Str:
    if first:
        return ""
    if p:
        return eol
    return ""


@spec
def lead(prev: Bool, i: Nat) -> Str:
    if prev:
        return ind(i)
    return ""


@spec
def rl_step(st: "St", c: "Node", rtI: Str, rt0: Str, i: Nat, eol: Str, e: Bool) -> "St":
    """one iteration of the sibling loop of TagList.get_html_string; rtI / rt0 are the child's own
    renderings at (i, eol) and (0, '')"""
    match c:
        case Md(_):
            return st
        case El(n, ws, a, k):
            p = st.prev or ws
            return St(st.html + sep(st.first, p, eol) + (rtI if p else rt0), False, ws)
        case Rp(s, o):
            return St(st.html + sep(st.first, st.prev, eol) + lead(st.prev, i) + s, False, False)
        case Raw(s):
            return St(st.html + sep(st.first, st.prev, eol) + lead(st.prev, i) + s, False, False)
        case Txt(s):
            return St(st.html + sep(st.first, st.prev, eol) + lead(st.prev, i) + (escT(s) if e else s), False, False)
        case Ob(_):
            return st


@spec
def rtag(t: "Node", i: Nat, eol: Str) -> Str:
    "Tag.get_html_string(t, i, eol)"
    match t:
        case El(n, ws, a, kids):
            return tagFrame(n, ws, attrFold(a, ind(i) + "<" + n), nonMeta(kids),
                            rlist(kids, St("", True, ws), i + 1, eol, not noEsc(n)).html, i, eol)
        case _:
            return ""


@spec
def rlist(l: "NodeList", st: "St", i: Nat, eol: Str, e: Bool) -> "St":
    "the sibling loop of TagList.get_html_string as a left fold of rl_step"
    match l:
        case NNil():
            return st
        case NCons(c, r):
            return rlist(r, rl_step(st, c, rtag(c, i, eol), rtag(c, 0, ""), i, eol, e), i, eol, e)


@spec
def rlistTop(l: "NodeList", i: Nat, eol: Str, add_ws: Bool, e: Bool) -> Str:
    "TagList.get_html_string(l, i, eol, add_ws=..., _escape_strings=e)"
    return rlist(l, St("", True, add_ws), i, eol, e).html


# ---------------------------------------------------------------------------------------------------
# un-expanded objects (the RuntimeError clause, C09)
# ---------------------------------------------------------------------------------------------------
@spec
def hasObT(t: "Node") -> Bool:
    "rendering this node raises: an Ob child is reached by the sibling loop at some depth"
    match t:
        case El(n, ws, a, kids):
            return generalPath(nonMeta(kids)) and hasObL(kids)
        case _:
            return False


@spec
def hasObL(l: "NodeList") -> Bool:
    match l:
        case NNil():
            return False
        case NCons(c, r):
            return isOb(c) or hasObT(c) or hasObL(r)


@spec
def isOb(c: "Node") -> Bool:
    match c:
        case Ob(_):
            return True
        case _:
            return False


@spec
def generalPath(ks: "NodeList") -> Bool:
    "Tag.get_html_string reaches the child-list renderer (not the empty / single-text fast paths)"
    match ks:
        case NNil():
            return False
        case NCons(Txt(s), NNil()):
            return False
        case NCons(Raw(s), NNil()):
            return False
        case _:
            return True


# ---------------------------------------------------------------------------------------------------
# small predicates / projections used by contracts
# ---------------------------------------------------------------------------------------------------
@spec
def isEl(c: "Node") -> Bool:
    match c:
        case El(n, ws, a, k):
            return True
        case _:
            return False


@spec
def isTextual(c: "Node") -> Bool:
    "str or HTML"
    match c:
        case Txt(s):
            return True
        case Raw(s):
            return True
        case _:
            return False


@spec
def normText(c: "Node") -> Str:
    "_normalize_text"
    match c:
        case Raw(s):
            return s
        case Txt(s):
            return escT(s)
        case _:
            return ""


@spec
def isRaw(c: "Node") -> Bool:
    match c:
        case Raw(s):
            return True
        case _:
            return False


@spec
def rawOf(c: "Node") -> Str:
    match c:
        case Raw(s):
            return s
        case _:
            return ""


@spec
def nappend(a: "NodeList", b: "NodeList") -> "NodeList":
    "list concatenation on child lists"
    match a:
        case NNil():
            return b
        case NCons(c, r):
            return NCons(c, nappend(r, b))


@spec
def allMeta(l: "NodeList") -> Bool:
    match l:
        case NNil():
            return True
        case NCons(c, r):
            return isMeta(c) and allMeta(r)


# ---------------------------------------------------------------------------------------------------
# feature predicates used to decide whether a refuted refinement obligation concerns a property
# (hv.plans `relevance`): the counterexamples of an obligation need the feature iff it is discharged
# once the feature is excluded
# ---------------------------------------------------------------------------------------------------
@spec
def isTxtN(c: "Node") -> Bool:
    match c:
        case Txt(s):
            return True
        case _:
            return False


@spec
def isRawOrRp(c: "Node") -> Bool:
    match c:
        case Raw(s):
            return True
        case Rp(s, o):
            return True
        case _:
            return False


@spec
def hasTopTxt(l: "NodeList") -> Bool:
    match l:
        case NNil():
            return False
        case NCons(c, r):
            return isTxtN(c) or hasTopTxt(r)


@spec
def hasTopRawOrRp(l: "NodeList") -> Bool:
    match l:
        case NNil():
            return False
        case NCons(c, r):
            return isRawOrRp(c) or hasTopRawOrRp(r)


@spec
def hasTopMeta(l: "NodeList") -> Bool:
    match l:
        case NNil():
            return False
        case NCons(c, r):
            return isMeta(c) or hasTopMeta(r)


@spec
def wsOf(t: "Node") -> Bool:
    match t:
        case El(n, ws, a, k):
            return ws
        case _:
            return False


@spec
def nameOf(t: "Node") -> Str:
    match t:
        case El(n, ws, a, k):
            return n
        case _:
            return ""


@spec
def kidsOfN(t: "Node") -> "NodeList":
    match t:
        case El(n, ws, a, k):
            return k
        case _:
            return NNil()


@spec
def hasAttrs(t: "Node") -> Bool:
    match t:
        case El(n, ws, ACons(k, v, tl), kids):
            return True
        case _:
            return False
