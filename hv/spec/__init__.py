"""L1 spec modules; importing this package registers every ADT and spec function in speclang.REG."""
from . import strings  # noqa: F401
from . import render  # noqa: F401
from . import layout  # noqa: F401
from . import text  # noqa: F401
from . import attrs  # noqa: F401
from . import children  # noqa: F401
from . import helpers  # noqa: F401
from . import tagify  # noqa: F401
from . import hooks  # noqa: F401
from . import document  # noqa: F401
from . import serial  # noqa: F401
from . import jsx  # noqa: F401
from . import paths  # noqa: F401
from . import equality  # noqa: F401
