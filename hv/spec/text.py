"""L1 specs for str / HTML() values (C02, C03, C04): concatenation algebra of HTML(UserString),
attribute value normalisation and merging (shared with C15)."""
from ..speclang import adt, spec, abstract, prim, Str, Int, Nat, Bool
from .render import escT, escA, Plain, RawV, ANil, ACons, renderAttr

# a value of type `str | HTML` is an AttrVal:  Plain(s) = str,  RawV(s) = HTML(s)


@spec
def isRawV(v: "AttrVal") -> Bool:
    match v:
        case RawV(s):
            return True
        case Plain(s):
            return False


@spec
def strOf(v: "AttrVal") -> Str:
    "str(v): the characters, marked or not"
    match v:
        case RawV(s):
            return s
        case Plain(s):
            return s


@spec
def rendTH(v: "AttrVal") -> Str:
    "how the value is emitted as a child of an ordinary element"
    match v:
        case RawV(s):
            return s
        case Plain(s):
            return escT(s)


@spec
def addTH(a: "AttrVal", b: "AttrVal") -> "AttrVal":
    """Python's `a + b` for a, b in str | HTML  (str.__add__, HTML.__add__, HTML.__radd__)"""
    match a:
        case Plain(s):
            match b:
                case Plain(t):
                    return Plain(s + t)
                case RawV(h):
                    return RawV(escT(s) + h)
        case RawV(g):
            match b:
                case Plain(t):
                    return RawV(g + escT(t))
                case RawV(h):
                    return RawV(g + h)


# expressions built with + over str / HTML operands (all groupings)
adt(THExpr=dict(Leaf=dict(v="AttrVal"), Add=dict(l="THExpr", r="THExpr")))


@spec
def evalTH(e: "THExpr") -> "AttrVal":
    match e:
        case Leaf(v):
            return v
        case Add(l, r):
            return addTH(evalTH(l), evalTH(r))


@spec
def anyRaw(e: "THExpr") -> Bool:
    match e:
        case Leaf(v):
            return isRawV(v)
        case Add(l, r):
            return anyRaw(l) or anyRaw(r)


@spec
def rendLeaves(e: "THExpr") -> Str:
    "the operands rendered as separate adjacent children, in order"
    match e:
        case Leaf(v):
            return rendTH(v)
        case Add(l, r):
            return rendLeaves(l) + rendLeaves(r)


@spec
def catLeaves(e: "THExpr") -> Str:
    "plain concatenation of the operands' characters"
    match e:
        case Leaf(v):
            return strOf(v)
        case Add(l, r):
            return catLeaves(l) + catLeaves(r)


# ---------------------------------------------------------------------------------------------------
# attribute value merging (TagAttrDict.update joins repeated names with ' ')
# ---------------------------------------------------------------------------------------------------
@spec
def joinAV(prev: "AttrVal", val: "AttrVal") -> "AttrVal":
    "the merged value the property demands: both sides keep their own escaping discipline"
    match prev:
        case Plain(s):
            match val:
                case Plain(t):
                    return Plain(s + " " + t)
                case RawV(h):
                    return RawV(escA(s) + " " + h)
        case RawV(g):
            match val:
                case Plain(t):
                    return RawV(g + " " + escA(t))
                case RawV(h):
                    return RawV(g + " " + h)


@spec
def aappend(a: "AttrList", b: "AttrList") -> "AttrList":
    match a:
        case ANil():
            return b
        case ACons(k, v, tl):
            return ACons(k, v, aappend(tl, b))


# the right operand of HTML.__add__ / left operand of HTML.__radd__: a str, an HTML, or any other object (with its str())
adt(AddArg=dict(APlain=dict(s=Str), AHtml=dict(s=Str), AObj=dict(s=Str)))


@spec
def addPiece(o: "AddArg") -> Str:
    "what the operand contributes to the concatenation: HTML() verbatim, everything else escaped once as text"
    match o:
        case AHtml(h):
            return h
        case APlain(s):
            return escT(s)
        case AObj(s):
            return escT(s)


@spec
def addAny(a: "AttrVal", o: "AddArg") -> "AttrVal":
    "HTML.__add__(a, o)"
    return RawV(strOf(a) + addPiece(o))


@spec
def raddAny(a: "AttrVal", o: "AddArg") -> "AttrVal":
    "HTML.__radd__(a, o) = o + a"
    return RawV(addPiece(o) + strOf(a))


@spec
def isAHtml(o: "AddArg") -> Bool:
    match o:
        case AHtml(h):
            return True
        case _:
            return False
