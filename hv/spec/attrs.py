"""L1 specs for TagAttrDict (C03, C15) and the class/style helpers (C16)."""
from ..speclang import adt, spec, abstract, prim, Str, Int, Nat, Bool
from .render import escT, escA, Plain, RawV, ANil, ACons
from .strings import replaceAll, strOfInt
from .text import addTH, joinAV, isRawV

# what a caller may pass as an attribute value (TagAttrValue and beyond)
adt(AttrArg=dict(VNone={}, VBool=dict(b=Bool), VStr=dict(s=Str), VHtml=dict(s=Str), VInt=dict(n=Int), VFloat=dict(fid=Int), VOther=dict(oid=Int)))
adt(OptAV=dict(NoAV={}, SomeAV=dict(v="AttrVal")))
# one attribute dict argument: insertion-ordered (raw name, value) pairs; the positional dicts of one call
adt(ArgDict=dict(DNil={}, DCons=dict(k=Str, v="AttrArg", tl="ArgDict")))
adt(ArgDicts=dict(DDNil={}, DDCons=dict(hd="ArgDict", tl="ArgDicts")))


@prim(lean="strOfFloat")
def strOfFloat(fid: Int) -> Str:
    "str(x) for the float with identity fid (floats are opaque atoms; the executable form uses the float fid + 0.5)"
    return str(float(fid) + 0.5)


def _droplast_z3(world, name, dom, rng):
    import z3
    return lambda s: z3.SubString(s, 0, z3.Length(s) - 1)


@prim(lean="dropLast1", z3def=_droplast_z3)
def dropLast1(s: Str) -> Str:
    "s[:-1]"
    return s[:-1]


def _endswith_z3(world, name, dom, rng):
    import z3
    return lambda s, suf: z3.SuffixOf(suf, s)


@prim(lean="endsWith", z3def=_endswith_z3)
def endsWith(s: Str, suf: Str) -> Bool:
    "s.endswith(suf)"
    return s.endswith(suf)


@spec
def normName(x: Str) -> Str:
    "TagAttrDict._normalize_attr_name: one trailing underscore removed, remaining underscores -> hyphens"
    if endsWith(x, "_"):
        return replaceAll(dropLast1(x), "_", "-")
    return replaceAll(x, "_", "-")


@spec
def normVal(x: "AttrArg") -> "OptAV":
    "TagAttrDict._normalize_attr_value: None/False dropped, True -> '', numbers -> text, str/HTML kept"
    match x:
        case VNone():
            return NoAV()
        case VBool(b):
            if b:
                return SomeAV(Plain(""))
            return NoAV()
        case VStr(s):
            return SomeAV(Plain(s))
        case VHtml(s):
            return SomeAV(RawV(s))
        case VInt(n):
            return SomeAV(Plain(strOfInt(n)))
        case VFloat(f):
            return SomeAV(Plain(strOfFloat(f)))
        case VOther(o):
            return NoAV()


@spec
def isOtherArg(x: "AttrArg") -> Bool:
    match x:
        case VOther(o):
            return True
        case _:
            return False


# ---- insertion-ordered dict operations on AttrList ------------------------------------------------
@spec
def ahas(a: "AttrList", k: Str) -> Bool:
    match a:
        case ANil():
            return False
        case ACons(k2, v, tl):
            return k2 == k or ahas(tl, k)


@spec
def aget(a: "AttrList", k: Str) -> "AttrVal":
    "a[k] (Plain('') when absent: only used under ahas)"
    match a:
        case ANil():
            return Plain("")
        case ACons(k2, v, tl):
            if k2 == k:
                return v
            return aget(tl, k)


@spec
def aset(a: "AttrList", k: Str, v: "AttrVal") -> "AttrList":
    "dict.__setitem__: overwrite keeps the position, a new key goes last"
    match a:
        case ANil():
            return ACons(k, v, ANil())
        case ACons(k2, v2, tl):
            if k2 == k:
                return ACons(k2, v, tl)
            return ACons(k2, v2, aset(tl, k, v))


@spec
def aupdate(a: "AttrList", b: "AttrList") -> "AttrList":
    "dict.update(a, b)"
    match b:
        case ANil():
            return a
        case ACons(k, v, tl):
            return aupdate(aset(a, k, v), tl)


@spec
def adel(a: "AttrList", k: Str) -> "AttrList":
    "dict.pop(k) on the key set"
    match a:
        case ANil():
            return ANil()
        case ACons(k2, v, tl):
            if k2 == k:
                return tl
            return ACons(k2, v, adel(tl, k))


# ---- one call of update / the constructor -----------------------------------------------------------
@spec
def updStep(acc: "AttrList", k: Str, v: "AttrArg") -> "AttrList":
    "one (name, value) pair of one argument dict, merged into the per-call accumulator"
    match normVal(v):
        case NoAV():
            return acc
        case SomeAV(val):
            nm = normName(k)
            if ahas(acc, nm):
                return aset(acc, nm, joinAV(aget(acc, nm), val))
            return aset(acc, nm, val)


@spec
def mergeDict(d: "ArgDict", acc: "AttrList") -> "AttrList":
    match d:
        case DNil():
            return acc
        case DCons(k, v, tl):
            return mergeDict(tl, updStep(acc, k, v))


@spec
def mergeDicts(ds: "ArgDicts", acc: "AttrList") -> "AttrList":
    match ds:
        case DDNil():
            return acc
        case DDCons(d, tl):
            return mergeDicts(tl, mergeDict(d, acc))


@spec
def dictNonEmpty(d: "ArgDict") -> Bool:
    match d:
        case DNil():
            return False
        case DCons(k, v, tl):
            return True


@spec
def ddsnoc(ds: "ArgDicts", d: "ArgDict") -> "ArgDicts":
    "args + (kwargs,)"
    match ds:
        case DDNil():
            return DDCons(d, DDNil())
        case DDCons(h, tl):
            return DDCons(h, ddsnoc(tl, d))


@spec
def callDicts(args: "ArgDicts", kwargs: "ArgDict") -> "ArgDicts":
    "positional dicts left to right, then the keywords (if any)"
    if dictNonEmpty(kwargs):
        return ddsnoc(args, kwargs)
    return args


@spec
def mergeCall(args: "ArgDicts", kwargs: "ArgDict") -> "AttrList":
    "the attributes contributed by one call, in order of first appearance"
    return mergeDicts(callDicts(args, kwargs), ANil())


@spec
def hasOtherD(d: "ArgDict") -> Bool:
    match d:
        case DNil():
            return False
        case DCons(k, v, tl):
            return isOtherArg(v) or hasOtherD(tl)


@spec
def hasOtherDs(ds: "ArgDicts") -> Bool:
    "some value is of an unsupported type: the call raises TypeError"
    match ds:
        case DDNil():
            return False
        case DDCons(d, tl):
            return hasOtherD(d) or hasOtherDs(tl)


@spec
def setItemSpec(a: "AttrList", name: Str, value: "AttrArg") -> "AttrList":
    "TagAttrDict.__setitem__: normalise, then replace (never append to an existing value)"
    match normVal(value):
        case NoAV():
            return a
        case SomeAV(v):
            return aset(a, normName(name), v)


@spec
def isVBool(x: "AttrArg") -> Bool:
    match x:
        case VBool(b):
            return True
        case _:
            return False


@spec
def boolOf(x: "AttrArg") -> Bool:
    match x:
        case VBool(b):
            return b
        case _:
            return False


@spec
def isANil(a: "AttrList") -> Bool:
    match a:
        case ANil():
            return True
        case ACons(k, v, tl):
            return False
