"""Primitive string functions (A3 library models).  Each has three hand-written forms: the Python body
here (the CPython operation itself), the Lean definition in hv/lean/HV/Prim.lean, and the z3 form
(uninterpreted, or a RecFunction where z3 can compute with it).  Cross-checked per run (A6)."""
from ..speclang import prim, spec, Str, Int, Nat, Bool


def _rep_z3(world, name, dom, rng):
    import z3
    f = z3.RecFunction(name, *dom, rng)
    s, n = z3.String("_s"), z3.Int("_n")
    z3.RecAddDefinition(f, [s, n], z3.If(n <= 0, z3.StringVal(""), z3.Concat(s, f(s, n - 1))))
    return f


@prim(lean="rep", z3def=_rep_z3)
def rep(s: Str, n: Nat) -> Str:
    "s * n"
    return s * n


@spec
def ind(n: Nat) -> Str:
    'the indentation string "  " * n'
    return rep("  ", n)


@prim(lean="replaceAll")
def replaceAll(s: Str, old: Str, new: Str) -> Str:
    "s.replace(old, new) for non-empty old: leftmost non-overlapping scan"
    return s.replace(old, new)


@prim(lean="replaceN")
def replaceN(s: Str, old: Str, new: Str, n: Int) -> Str:
    "s.replace(old, new, n)"
    return s.replace(old, new, n)


@prim(lean="strOfInt")
def strOfInt(n: Int) -> Str:
    "str(n) for an int (decimal, '-' prefix); for floats the model is an uninterpreted function"
    return str(n)


def _contains_z3(world, name, dom, rng):
    import z3
    return lambda s, sub: z3.Contains(s, sub)


@prim(lean="containsStr", z3def=_contains_z3)
def contains(s: Str, sub: Str) -> Bool:
    "sub in s"
    return sub in s


def _mod3_z3(world, name, dom, rng):
    return lambda k: k % 3


@prim(lean="mod3", z3def=_mod3_z3)
def mod3(k: Int) -> Int:
    "k % 3 (the three sequence classes list / tuple / TagList as residues, so that every Int denotes a class)"
    return k % 3
