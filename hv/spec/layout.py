"""Declarative side of the renderer properties (C05, C06, C07): what the output *should* be, written
independently of the renderer's state machine.  The Lean theorems in hv/lean/HV/C05.lean, C06.lean,
C07.lean relate these to `rtag`/`rlist`."""
from ..speclang import adt, spec, abstract, prim, Str, Int, Nat, Bool
from .strings import ind, rep
from .render import (escT, escA, isVoid, noEsc, renderAttr, attrFold, isMeta, nonMeta, closeT, Plain, RawV,
                     Txt, Raw, Md, Rp, Ob, El, NNil, NCons, ANil, ACons)

adt(StrList=dict(SNil={}, SCons=dict(hd=Str, tl="StrList")))
adt(OptStr=dict(NoStr={}, SomeStr=dict(s=Str)))


@spec
def attrStr(a: "AttrList") -> Str:
    'the attribute part of an opening tag:  key="value" for each attribute in insertion order'
    match a:
        case ANil():
            return ""
        case ACons(k, v, tl):
            return " " + k + '="' + renderAttr(v) + '"' + attrStr(tl)


@spec
def opn(n: Str, a: "AttrList") -> Str:
    return "<" + n + attrStr(a)


# --------------------------------------------------------------------------------------------------
# C07: removing every metadata node, at every depth
# --------------------------------------------------------------------------------------------------
@spec
def strip(t: "Node") -> "Node":
    match t:
        case El(n, ws, a, kids):
            return El(n, ws, a, stripL(kids))
        case _:
            return t


@spec
def stripL(l: "NodeList") -> "NodeList":
    match l:
        case NNil():
            return NNil()
        case NCons(c, r):
            if isMeta(c):
                return stripL(r)
            return NCons(strip(c), stripL(r))


# --------------------------------------------------------------------------------------------------
# C05: the flat (whitespace-free) rendering of a subtree
# --------------------------------------------------------------------------------------------------
@spec
def flatFrame(n: Str, a: "AttrList", ks: "NodeList", inner: Str) -> Str:
    "open tag, content, close tag; '/>' for a childless void element (ks = non-metadata children)"
    match ks:
        case NNil():
            if isVoid(n):
                return opn(n, a) + "/>"
            return opn(n, a) + ">" + closeT(n)
        case _:
            return opn(n, a) + ">" + inner + closeT(n)


@spec
def flat(e: Bool, t: "Node") -> Str:
    "concatenation of open tags, content and close tags; e = escape plain strings (False inside script/style)"
    match t:
        case Txt(s):
            return escT(s) if e else s
        case Raw(s):
            return s
        case Rp(s, o):
            return s
        case Md(d):
            return ""
        case Ob(o):
            return ""
        case El(n, ws, a, kids):
            return flatFrame(n, a, nonMeta(kids), flatL(not noEsc(n), kids))


@spec
def flatL(e: Bool, l: "NodeList") -> Str:
    match l:
        case NNil():
            return ""
        case NCons(c, r):
            return flat(e, c) + flatL(e, r)


@spec
def allInline(t: "Node") -> Bool:
    "no tag in the subtree has whitespace enabled (and nothing in it is an un-expanded object)"
    match t:
        case El(n, ws, a, kids):
            return (not ws) and allInlineL(kids)
        case Ob(o):
            return False
        case _:
            return True


@spec
def allInlineL(l: "NodeList") -> Bool:
    match l:
        case NNil():
            return True
        case NCons(c, r):
            return allInline(c) and allInlineL(r)


# --------------------------------------------------------------------------------------------------
# C06: declarative line layout
# --------------------------------------------------------------------------------------------------
@spec
def sappend(a: "StrList", b: "StrList") -> "StrList":
    match a:
        case SNil():
            return b
        case SCons(x, r):
            return SCons(x, sappend(r, b))


@spec
def joinL(eol: Str, ls: "StrList") -> Str:
    "eol.join(ls)"
    match ls:
        case SNil():
            return ""
        case SCons(x, SNil()):
            return x
        case SCons(x, r):
            return x + eol + joinL(eol, r)


@spec
def isBlock(c: "Node") -> Bool:
    match c:
        case El(n, ws, a, k):
            return ws
        case _:
            return False


@spec
def valid(t: "Node") -> Bool:
    "inline tags contain no block tags (and there is no un-expanded object)"
    match t:
        case El(n, ws, a, kids):
            return (ws or allInlineL(kids)) and validL(kids)
        case Ob(o):
            return False
        case _:
            return True


@spec
def validL(l: "NodeList") -> Bool:
    match l:
        case NNil():
            return True
        case NCons(c, r):
            return valid(c) and validL(r)


@spec
def isSimple(ks: "NodeList") -> Bool:
    "empty, or a single text/HTML child: the tag stays on one line"
    match ks:
        case NNil():
            return True
        case NCons(Txt(s), NNil()):
            return True
        case NCons(Raw(s), NNil()):
            return True
        case _:
            return False


@spec
def optL(run: "OptStr") -> "StrList":
    match run:
        case NoStr():
            return SNil()
        case SomeStr(r):
            return SCons(r, SNil())


@spec
def runStart(run: "OptStr", k: Nat) -> Str:
    match run:
        case NoStr():
            return ind(k)
        case SomeStr(r):
            return r


@spec
def linesFrame(n: Str, ws: Bool, a: "AttrList", ks: "NodeList", flatSelf: Str, sib: "StrList", k: Nat) -> "StrList":
    if ws and not isSimple(ks):
        return sappend(SCons(ind(k) + opn(n, a) + ">", sib), SCons(ind(k) + closeT(n), SNil()))
    return SCons(ind(k) + flatSelf, SNil())


@spec
def lines(t: "Node", k: Nat) -> "StrList":
    """the lines of a tag at indentation level k: one line for inline tags, empty tags and tags with a
    single text child; otherwise open line, children, close line"""
    match t:
        case El(n, ws, a, kids):
            return linesFrame(n, ws, a, nonMeta(kids), flatFrame(n, a, nonMeta(kids), flatL(not noEsc(n), kids)),
                              sibLines(not noEsc(n), kids, k + 1, NoStr()), k)
        case _:
            return SNil()


@spec
def sibLines(e: Bool, l: "NodeList", k: Nat, run: "OptStr") -> "StrList":
    """sibling rule: each maximal run of adjacent non-block children is one line (indented at its
    start), each block child contributes its own lines; metadata is invisible"""
    match l:
        case NNil():
            return optL(run)
        case NCons(c, rest):
            if isMeta(c):
                return sibLines(e, rest, k, run)
            if isBlock(c):
                return sappend(optL(run), sappend(lines(c, k), sibLines(e, rest, k, NoStr())))
            return sibLines(e, rest, k, SomeStr(runStart(run, k) + flat(e, c)))


# ---------------------------------------------------------------------------------------------------
# C01 domain: trees of ordinary elements (Bool version used to restrict refuted obligations to the domain)
# ---------------------------------------------------------------------------------------------------
@spec
def plainAttrsB(a: "AttrList") -> Bool:
    match a:
        case ANil():
            return True
        case ACons(k, Plain(s), tl):
            return plainAttrsB(tl)
        case ACons(k, RawV(s), tl):
            return False


@spec
def ordTree(t: "Node") -> Bool:
    match t:
        case El(n, ws, a, kids):
            return (not noEsc(n)) and plainAttrsB(a) and ordTreeL(kids)
        case Txt(s):
            return True
        case _:
            return False


@spec
def ordTreeL(l: "NodeList") -> Bool:
    match l:
        case NNil():
            return True
        case NCons(c, r):
            return ordTree(c) and ordTreeL(r)
