"""L1 specs for the class/style helpers of Tag and css() (C16), Tag construction and
consolidate_attrs (C15)."""
from ..speclang import adt, spec, abstract, prim, Str, Int, Nat, Bool
from .render import Plain, RawV, ANil, ACons, Txt, Raw, Md, Rp, Ob, El, NNil, NCons
from .layout import SNil, SCons, NoStr, SomeStr
from .strings import replaceAll, strOfInt
from .text import strOf, isRawV
from .attrs import (VNone, VBool, VStr, VHtml, VInt, VFloat, VOther, DNil, DCons, DDNil, DDCons, NoAV, SomeAV,
                    ahas, aget, aset, aupdate, adel, mergeCall, endsWith, strOfFloat, normVal, isOtherArg, hasOtherDs, callDicts)
from .children import CNone, CInt, CFloat, CBoolC, CNode, CSeq, CBad, CNil, CCons, nodes, bad


# ---- whitespace tokens ------------------------------------------------------------------------------
def _split_py(s):
    r = SNil()
    for t in reversed(s.split()):
        r = SCons(t, r)
    return r


@prim(lean="splitWs")
def splitWs(s: Str) -> "StrList":
    "s.split(): maximal runs of non-whitespace characters"
    return _split_py(s)


@prim(lean="joinSp")
def joinSp(l: "StrList") -> Str:
    '" ".join(l)'
    out = []
    while not isinstance(l, SNil):
        out.append(l.hd)
        l = l.tl
    return " ".join(out)


@prim(lean="stripWs")
def stripWs(s: Str) -> Str:
    "s.strip()"
    return s.strip()


@prim(lean="rstripWs")
def rstripWs(s: Str) -> Str:
    "s.rstrip()"
    return s.rstrip()


@prim(lean="lstripWs")
def lstripWs(s: Str) -> Str:
    "s.lstrip()"
    return s.lstrip()


@spec
def smem(l: "StrList", x: Str) -> Bool:
    match l:
        case SNil():
            return False
        case SCons(h, t):
            return h == x or smem(t, x)


@spec
def sremove(l: "StrList", x: Str) -> "StrList":
    "[t for t in l if t != x]"
    match l:
        case SNil():
            return SNil()
        case SCons(c, r):
            if c == x:
                return sremove(r, x)
            return SCons(c, sremove(r, x))


@spec
def snonempty(l: "StrList") -> Bool:
    match l:
        case SNil():
            return False
        case SCons(h, t):
            return True


# ---- class / style helpers (on the attribute map of the tag) -------------------------------------------
@spec
def optArg(a: "AttrList", k: Str) -> "AttrArg":
    "a.get(k) used as an attribute argument: None when absent"
    if ahas(a, k):
        match aget(a, k):
            case Plain(s):
                return VStr(s)
            case RawV(s):
                return VHtml(s)
    return VNone()


@spec
def two(k: Str, v1: "AttrArg", v2: "AttrArg") -> "ArgDicts":
    "({k: v1}, {k: v2})"
    return DDCons(DCons(k, v1, DNil()), DDCons(DCons(k, v2, DNil()), DDNil()))


@spec
def addClassAttrs(a: "AttrList", c: Str, prepend: Bool) -> "AttrList":
    if prepend:
        return aupdate(a, mergeCall(two("class", VStr(c), optArg(a, "class")), DNil()))
    return aupdate(a, mergeCall(two("class", optArg(a, "class"), VStr(c)), DNil()))


@spec
def thArg(v: "AttrVal") -> "AttrArg":
    match v:
        case Plain(s):
            return VStr(s)
        case RawV(s):
            return VHtml(s)


@spec
def addStyleAttrs(a: "AttrList", style: "AttrVal", prepend: Bool) -> "AttrList":
    if prepend:
        return aupdate(a, mergeCall(two("style", thArg(style), optArg(a, "style")), DNil()))
    return aupdate(a, mergeCall(two("style", optArg(a, "style"), thArg(style)), DNil()))


@spec
def classText(a: "AttrList") -> Str:
    "the characters of the class attribute ('' when absent)"
    if ahas(a, "class"):
        return strOf(aget(a, "class"))
    return ""


@spec
def hasClassAttrs(a: "AttrList", c: Str) -> Bool:
    if classText(a) == "":
        return False
    return smem(splitWs(classText(a)), c)


@spec
def removeClassAttrs(a: "AttrList", c: Str) -> "AttrList":
    if c == "":
        return a
    if classText(a) == "":
        return a
    toks = sremove(splitWs(classText(a)), stripWs(c))
    if snonempty(toks):
        return aupdate(a, mergeCall(DDCons(DCons("class", VStr(joinSp(toks)), DNil()), DDNil()), DNil()))
    return adel(a, "class")


# ---- css() --------------------------------------------------------------------------------------------
adt(CssVal=dict(CssNone={}, CssStr=dict(s=Str), CssInt=dict(n=Int), CssFloat=dict(fid=Int), CssBool=dict(b=Bool), CssList=dict(items="StrList")))
adt(CssArgs=dict(KNil={}, KCons=dict(k=Str, v="CssVal", tl="CssArgs")))


def _camel_py(s):
    import re
    return re.sub("([A-Z])", "-\\1", s)


@prim(lean="camelHyphen")
def camelHyphen(s: Str) -> Str:
    're.sub("([A-Z])", "-\\\\1", s): a hyphen before every ASCII capital'
    return _camel_py(s)


@prim(lean="lowerStr")
def lowerStr(s: Str) -> Str:
    "s.lower()"
    return s.lower()


@spec
def cssKey(k: Str) -> Str:
    return replaceAll(lowerStr(camelHyphen(k)), "_", "-")


@spec
def cssValText(v: "CssVal") -> Str:
    match v:
        case CssStr(s):
            return s
        case CssInt(n):
            return strOfInt(n)
        case CssFloat(f):
            return strOfFloat(f)
        case CssBool(b):
            return "True" if b else "False"
        case CssList(items):
            return joinSp(items)
        case CssNone():
            return ""


@spec
def cssFold(kw: "CssArgs", res: Str, collapse: Str) -> Str:
    match kw:
        case KNil():
            return res
        case KCons(k, v, tl):
            return cssFold(tl, cssStep(res, k, v, collapse), collapse)


@spec
def cssStep(res: Str, k: Str, v: "CssVal", collapse: Str) -> Str:
    match v:
        case CssNone():
            return res
        case _:
            return res + cssKey(k) + ":" + cssValText(v) + ";" + collapse


@spec
def cssSpec(collapse: Str, kw: "CssArgs") -> "OptStr":
    r = cssFold(kw, "", collapse)
    if r == "":
        return NoStr()
    return SomeStr(r)


# ---- Tag(...) and consolidate_attrs -----------------------------------------------------------------------
adt(TagArg=dict(TDict=dict(d="ArgDict"), TChild=dict(c="Child")))
adt(TagArgs=dict(TNil={}, TCons=dict(hd="TagArg", tl="TagArgs")))


@spec
def isTDict(x: "TagArg") -> Bool:
    match x:
        case TDict(d):
            return True
        case TChild(c):
            return False


@spec
def onlyDicts(l: "TagArgs") -> "TagArgs":
    "[x for x in args if isinstance(x, dict)]"
    match l:
        case TNil():
            return TNil()
        case TCons(c, r):
            if not isTDict(c):
                return onlyDicts(r)
            return TCons(c, onlyDicts(r))


@spec
def onlyChildren(l: "TagArgs") -> "TagArgs":
    "[x for x in args if not isinstance(x, dict)]"
    match l:
        case TNil():
            return TNil()
        case TCons(c, r):
            if isTDict(c):
                return onlyChildren(r)
            return TCons(c, onlyChildren(r))


@spec
def toDicts(l: "TagArgs") -> "ArgDicts":
    "the dict arguments, as dicts"
    match l:
        case TNil():
            return DDNil()
        case TCons(TDict(d), r):
            return DDCons(d, toDicts(r))
        case TCons(x, r):
            return toDicts(r)


@spec
def toChildren(l: "TagArgs") -> "ChildList":
    "the non-dict arguments, as children"
    match l:
        case TNil():
            return CNil()
        case TCons(TChild(c), r):
            return CCons(c, toChildren(r))
        case TCons(x, r):
            return toChildren(r)


@spec
def tagAttrs(args: "TagArgs", kwargs: "ArgDict") -> "AttrList":
    "the attributes of Tag(name, *args, **kwargs)"
    return mergeCall(toDicts(onlyDicts(args)), kwargs)


@spec
def tagKids(args: "TagArgs") -> "NodeList":
    "the children of Tag(name, *args, **kwargs)"
    return nodes(toChildren(onlyChildren(args)))


@spec
def tagRaises(args: "TagArgs", kwargs: "ArgDict") -> Bool:
    return hasOtherDs(callDicts(toDicts(onlyDicts(args)), kwargs)) or bad(toChildren(onlyChildren(args)))


@spec
def toArgDict(a: "AttrList") -> "ArgDict":
    "a stored attribute map passed back as one attribute dict (consolidate_attrs round trip)"
    match a:
        case ANil():
            return DNil()
        case ACons(k, v, tl):
            return DCons(k, thArg(v), toArgDict(tl))


@spec
def classToks(a: "AttrList") -> "StrList":
    "the whitespace tokens of the class attribute"
    return splitWs(classText(a))


@spec
def attrsOf(t: "Node") -> "AttrList":
    match t:
        case El(n, ws, a, kids):
            return a
        case _:
            return ANil()


@spec
def withAttrs(t: "Node", a2: "AttrList") -> "Node":
    "the same tag with its attribute map replaced"
    match t:
        case El(n, ws, a, kids):
            return El(n, ws, a2, kids)
        case _:
            return t
