"""L1 specs for tagify (C09, C08), dependency collection and resolution (C10) and the document tree
(C11)."""
from ..speclang import adt, spec, abstract, prim, Str, Int, Nat, Bool
from .render import (Txt, Raw, Md, Rp, Ob, El, NNil, NCons, ANil, ACons, Dep, nappend, isMeta, rtag, rlistTop, hasObT, hasObL)

# what a user object's tagify() returns (A5): a TagList (spliced) or a single node
adt(TgRes=dict(TgList=dict(items="NodeList"), TgNode=dict(node="Node")))
adt(DepList=dict(DLNil={}, DLCons=dict(hd="Dep", tl="DepList")))
adt(DepMap=dict(MNil={}, MCons=dict(k=Str, d="Dep", tl="DepMap")))        # insertion-ordered name -> dependency
adt(Rendered=dict(Rendered=dict(deps="DepList", html=Str)))


@abstract(group="env")
def tagifyOf(oid: Int) -> "TgRes":
    "the result of obj.tagify() for the user object with identity oid (pure, A5)"
    return BIND_T["tagifyOf"](oid)


@abstract(group="env")
def hasTagify(oid: Int) -> Bool:
    "whether the _repr_html_ object with identity oid also has a tagify() method"
    return BIND_T["hasTagify"](oid)


BIND_T = {"tagifyOf": lambda oid: TgList(NNil()), "hasTagify": lambda oid: False}


# ---- tagify --------------------------------------------------------------------------------------------
@spec
def expandObj(o: Int) -> "NodeList":
    "what replaces a tagifiable user object: a returned TagList is spliced, anything else takes its place"
    match tagifyOf(o):
        case TgList(l):
            return l
        case TgNode(n):
            return NCons(n, NNil())


@spec
def expand(c: "Node") -> "NodeList":
    "the replacement of one child by TagList.tagify"
    match c:
        case El(n, ws, a, kids):
            return NCons(El(n, ws, a, tagifyL(kids)), NNil())
        case Ob(o):
            return expandObj(o)
        case Rp(s, o):
            if hasTagify(o):
                return expandObj(o)
            return NCons(c, NNil())
        case _:
            return NCons(c, NNil())


@spec
def tagifyL(l: "NodeList") -> "NodeList":
    "TagList.tagify: every child replaced by its expansion, in place and in order"
    match l:
        case NNil():
            return NNil()
        case NCons(c, r):
            return nappend(expand(c), tagifyL(r))


@spec
def tagifyT(t: "Node") -> "Node":
    "Tag.tagify"
    match t:
        case El(n, ws, a, kids):
            return El(n, ws, a, tagifyL(kids))
        case _:
            return t


@spec
def tagifiedT(t: "Node") -> Bool:
    "nothing left to expand in this subtree"
    match t:
        case El(n, ws, a, kids):
            return tagifiedL(kids)
        case Ob(o):
            return False
        case Rp(s, o):
            return not hasTagify(o)
        case _:
            return True


@spec
def tagifiedL(l: "NodeList") -> Bool:
    match l:
        case NNil():
            return True
        case NCons(c, r):
            return tagifiedT(c) and tagifiedL(r)


# ---- dependencies ----------------------------------------------------------------------------------------
@spec
def dsnoc(l: "DepList", d: "Dep") -> "DepList":
    match l:
        case DLNil():
            return DLCons(d, DLNil())
        case DLCons(h, t):
            return DLCons(h, dsnoc(t, d))


@spec
def dappend(a: "DepList", b: "DepList") -> "DepList":
    match a:
        case DLNil():
            return b
        case DLCons(h, t):
            return DLCons(h, dappend(t, b))


@spec
def collectStep(acc: "DepList", c: "Node") -> "DepList":
    match c:
        case Md(d):
            if d.isdep:
                return dsnoc(acc, d)
            return acc
        case El(n, ws, a, kids):
            return dappend(acc, collectL(kids, DLNil()))
        case _:
            return acc


@spec
def collectL(l: "NodeList", acc: "DepList") -> "DepList":
    "TagList.get_dependencies(dedup=False): pre-order, document order, every nesting level"
    match l:
        case NNil():
            return acc
        case NCons(c, r):
            return collectL(r, collectStep(acc, c))


@spec
def collectT(t: "Node") -> "DepList":
    "Tag.get_dependencies(dedup=False)"
    match t:
        case El(n, ws, a, kids):
            return collectL(kids, DLNil())
        case _:
            return DLNil()


@spec
def mhas(m: "DepMap", k: Str) -> Bool:
    match m:
        case MNil():
            return False
        case MCons(k2, d, tl):
            return k2 == k or mhas(tl, k)


@spec
def mget(m: "DepMap", k: Str) -> "Dep":
    match m:
        case MNil():
            return Dep(False, "", 0, 0)
        case MCons(k2, d, tl):
            if k2 == k:
                return d
            return mget(tl, k)


@spec
def mset(m: "DepMap", k: Str, d: "Dep") -> "DepMap":
    match m:
        case MNil():
            return MCons(k, d, MNil())
        case MCons(k2, d2, tl):
            if k2 == k:
                return MCons(k2, d, tl)
            return MCons(k2, d2, mset(tl, k, d))


@spec
def mvalues(m: "DepMap") -> "DepList":
    match m:
        case MNil():
            return DLNil()
        case MCons(k, d, tl):
            return DLCons(d, mvalues(tl))


@spec
def resolveStep(m: "DepMap", d: "Dep") -> "DepMap":
    "keep one dependency per name, replacing only by a strictly greater version"
    if not mhas(m, d.name):
        return mset(m, d.name, d)
    if d.ver > mget(m, d.name).ver:
        return mset(m, d.name, d)
    return m


@spec
def resolveFold(deps: "DepList", m: "DepMap") -> "DepMap":
    match deps:
        case DLNil():
            return m
        case DLCons(d, r):
            return resolveFold(r, resolveStep(m, d))


@spec
def resolve(deps: "DepList") -> "DepList":
    "_resolve_dependencies"
    return mvalues(resolveFold(deps, MNil()))


@spec
def depsOf(l: "NodeList", dedup: Bool) -> "DepList":
    "TagList.get_dependencies(dedup=...)"
    if dedup:
        return resolve(collectL(l, DLNil()))
    return collectL(l, DLNil())


@spec
def renderL(l: "NodeList") -> "Rendered":
    "TagList.render(): tagify, collect + resolve dependencies, then markup"
    return Rendered(depsOf(tagifyL(l), True), rlistTop(tagifyL(l), 0, "\n", True, True))


@spec
def renderT(t: "Node") -> "Rendered":
    "Tag.render()"
    match t:
        case El(n, ws, a, kids):
            return Rendered(depsOf(tagifyL(kids), True), rtag(El(n, ws, a, tagifyL(kids)), 0, "\n"))
        case _:
            return Rendered(DLNil(), "")
