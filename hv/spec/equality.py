"""L1 spec of structural equality (C08): what `==` between tags, lists and dependencies computes.
_equals_impl compares the instance fields one by one with `!=`; for a Tag these are name, add_ws, attrs (a dict: equal iff the same
set of keys with equal values, order irrelevant), children (a UserList: equal iff equal length and pairwise equal) and prev_displayhook."""
from ..speclang import adt, spec, abstract, prim, Str, Int, Nat, Bool
from .render import Txt, Raw, Md, Rp, Ob, El, NNil, NCons, ANil, ACons, Plain, RawV
from .attrs import ahas, aget


@spec
def avText(v: "AttrVal") -> Str:
    "an attribute value as a string: HTML('x') == 'x' (HTML is a str subclass without its own __eq__)"
    match v:
        case Plain(s):
            return s
        case RawV(s):
            return s


@spec
def alen(a: "AttrList") -> Nat:
    match a:
        case ANil():
            return 0
        case ACons(k, v, tl):
            return 1 + alen(tl)


@spec
def attrsSub(a: "AttrList", b: "AttrList") -> Bool:
    "every item of a is an item of b"
    match a:
        case ANil():
            return True
        case ACons(k, v, tl):
            return ahas(b, k) and avText(aget(b, k)) == avText(v) and attrsSub(tl, b)


@spec
def attrsEq(a: "AttrList", b: "AttrList") -> Bool:
    "dict equality (keys are unique in both): the same number of items, and every item of a in b"
    return alen(a) == alen(b) and attrsSub(a, b)


@spec
def nodeEq(x: "Node", y: "Node") -> Bool:
    "x == y for two stored children"
    match x:
        case Txt(s):
            match y:
                case Txt(s2):
                    return s == s2
                case Raw(s2):
                    return s == s2
                case _:
                    return False
        case Raw(s):
            match y:
                case Txt(s2):
                    return s == s2
                case Raw(s2):
                    return s == s2
                case _:
                    return False
        case El(n, ws, a, kids):
            match y:
                case El(n2, ws2, a2, kids2):
                    return n == n2 and ws == ws2 and attrsEq(a, a2) and nodesEq(kids, kids2)
                case _:
                    return False
        case Md(d):
            match y:
                case Md(d2):
                    return d == d2
                case _:
                    return False
        case Rp(s, o):
            match y:
                case Rp(s2, o2):
                    return o == o2
                case _:
                    return False
        case Ob(o):
            match y:
                case Ob(o2):
                    return o == o2
                case _:
                    return False


@spec
def nodesEq(l: "NodeList", m: "NodeList") -> Bool:
    "list equality: same length, pairwise =="
    match l:
        case NNil():
            match m:
                case NNil():
                    return True
                case _:
                    return False
        case NCons(c, r):
            match m:
                case NCons(c2, r2):
                    return nodeEq(c, c2) and nodesEq(r, r2)
                case _:
                    return False
