"""L1 spec of HTMLDocument: the html/head/body tree and the hoisting of dependencies into <head> (C11, C08)."""
from ..speclang import adt, spec, abstract, prim, Str, Int, Nat, Bool
from .render import (Txt, Raw, Md, Rp, Ob, El, NNil, NCons, ANil, ACons, Plain, RawV, Dep, nappend, isMeta, rtag)
from .layout import SNil, SCons, NoStr, SomeStr
from .attrs import DNil, DCons, DDNil, DDCons, VStr, VBool, aupdate, mergeCall, hasOtherD, hasOtherDs, callDicts
from .children import CNil, CCons, CSeq, CNode, ofNodes, nodes, nlen
from .tagify import DLNil, DLCons, Rendered, tagifyT, tagifyL, resolve, collectT, collectL, depsOf, renderT


@abstract(group="env")
def depTags(d: "Dep", lp: "OptStr", iv: Bool) -> "NodeList":
    "d.as_html_tags(lib_prefix=lp, include_version=iv): the meta, link, script and head markup of one dependency"
    return BIND_D["depTags"](d, lp, iv)


@abstract(group="env")
def verStr(ver: Int) -> Str:
    "str(version) for the Version whose order image is ver"
    return BIND_D["verStr"](ver)


BIND_D = {"depTags": lambda d, lp, iv: NNil(), "verStr": lambda v: "0." + str(v)}


@prim(lean="joinSemi")
def joinSemi(l: "StrList") -> Str:
    '";".join(l)'
    out = []
    while not isinstance(l, SNil):
        out.append(l.hd)
        l = l.tl
    return ";".join(out)


@spec
def depLabel(d: "Dep") -> Str:
    "name[version]"
    return d.name + "[" + verStr(d.ver) + "]"


@spec
def depLabels(ds: "DepList") -> "StrList":
    match ds:
        case DLNil():
            return SNil()
        case DLCons(d, r):
            return SCons(depLabel(d), depLabels(r))


@spec
def depTagChildren(ds: "DepList", lp: "OptStr", iv: Bool) -> "ChildList":
    "[d.as_html_tags(...) for d in deps]: one TagList per dependency"
    match ds:
        case DLNil():
            return CNil()
        case DLCons(d, r):
            return CCons(CSeq(2, ofNodes(depTags(d, lp, iv))), depTagChildren(r, lp, iv))


@spec
def depTagsAll(ds: "DepList", lp: "OptStr", iv: Bool) -> "NodeList":
    "each dependency's markup once, in resolved order"
    match ds:
        case DLNil():
            return NNil()
        case DLCons(d, r):
            return nappend(depTags(d, lp, iv), depTagsAll(r, lp, iv))


@spec
def dlNonEmpty(ds: "DepList") -> Bool:
    match ds:
        case DLNil():
            return False
        case DLCons(d, r):
            return True


# ---- the <head> ---------------------------------------------------------------------------------------------
@spec
def metaCharset() -> "Node":
    'Tag("meta", charset="utf-8")'
    return El("meta", True, ACons("charset", Plain("utf-8"), ANil()), NNil())


@spec
def listingTag(ds: "DepList") -> "Node":
    "the application/html-dependencies script listing name[version] of every resolved dependency"
    return El("script", True, ACons("type", Plain("application/html-dependencies"), ANil()), NCons(Txt(joinSemi(depLabels(ds))), NNil()))


@spec
def headExtra(ds: "DepList", lp: "OptStr", iv: Bool) -> "NodeList":
    "what is appended to the head's own content: the listing (if there are dependencies), then every dependency's markup"
    if dlNonEmpty(ds):
        return NCons(listingTag(ds), depTagsAll(ds, lp, iv))
    return depTagsAll(ds, lp, iv)


@spec
def newHead(h: "Node", ds: "DepList", lp: "OptStr", iv: Bool) -> "Node":
    "the head after hoisting: meta charset first, the head's own content in order, then listing and dependency markup"
    match h:
        case El(n, ws, a, kids):
            return El(n, ws, a, NCons(metaCharset(), nappend(kids, headExtra(ds, lp, iv))))
        case _:
            return h


@spec
def isHeadTag(c: "Node") -> Bool:
    match c:
        case El(n, ws, a, k):
            return n == "head"
        case _:
            return False


@spec
def hasHead(l: "NodeList") -> Bool:
    match l:
        case NNil():
            return False
        case NCons(c, r):
            return isHeadTag(c) or hasHead(r)


@spec
def firstHead(l: "NodeList") -> "Node":
    "the first <head> child (an empty head when there is none)"
    match l:
        case NNil():
            return El("head", True, ANil(), NNil())
        case NCons(c, r):
            if isHeadTag(c):
                return c
            return firstHead(r)


@spec
def replaceFirstHead(l: "NodeList", v: "Node") -> "NodeList":
    "the list with its first <head> child replaced by v (children before and after it untouched)"
    match l:
        case NNil():
            return NNil()
        case NCons(c, r):
            if isHeadTag(c):
                return NCons(v, r)
            return NCons(c, replaceFirstHead(r, v))


@spec
def hoistKids(l: "NodeList", ds: "DepList", lp: "OptStr", iv: Bool) -> "NodeList":
    "the first <head> child replaced by its hoisted version"
    return replaceFirstHead(l, newHead(firstHead(l), ds, lp, iv))


@spec
def emptyHead() -> "Node":
    return El("head", True, ANil(), NNil())


@spec
def hoist(x: "Node", lp: "OptStr", iv: Bool) -> "Node":
    "HTMLDocument._hoist_head_content(x, lp, iv) for an <html> tag x"
    match x:
        case El(n, ws, a, kids):
            ds = resolve(collectL(kids, DLNil()))
            if hasHead(kids):
                return El(n, ws, a, hoistKids(kids, ds, lp, iv))
            return El(n, ws, a, NCons(newHead(emptyHead(), ds, lp, iv), kids))
        case _:
            return x


# ---- the document tree -----------------------------------------------------------------------------------------
@spec
def isNamed(c: "Node", nm: Str) -> Bool:
    match c:
        case El(n, ws, a, k):
            return n == nm
        case _:
            return False


@spec
def soleTag(content: "NodeList", nm: Str) -> Bool:
    "the content is exactly one tag with this name"
    match content:
        case NCons(c, NNil()):
            return isNamed(c, nm)
        case _:
            return False


@spec
def soleOf(content: "NodeList") -> "Node":
    match content:
        case NCons(c, r):
            return c
        case NNil():
            return Txt("")


@spec
def withAttrsD(t: "Node", a2: "AttrList") -> "Node":
    match t:
        case El(n, ws, a, kids):
            return El(n, ws, a2, kids)
        case _:
            return t


@spec
def attrsOfD(t: "Node") -> "AttrList":
    match t:
        case El(n, ws, a, kids):
            return a
        case _:
            return ANil()


@spec
def docTree(content: "NodeList", attrs: "ArgDict", lp: "OptStr", iv: Bool) -> "Node":
    """HTMLDocument._gen_html_tag_tree: the user's own <html> if that is the sole content (html attributes applied to the
    tagified copy), else a new <html> whose <body> is the user's sole <body> tag or wraps the content"""
    if soleTag(content, "html"):
        h = tagifyT(soleOf(content))
        return hoist(withAttrsD(h, aupdate(attrsOfD(h), mergeCall(DDNil(), attrs))), lp, iv)
    if soleTag(content, "body"):
        return hoist(El("html", True, mergeCall(DDNil(), attrs), NCons(emptyHead(), NCons(tagifyT(soleOf(content)), NNil()))), lp, iv)
    return hoist(El("html", True, mergeCall(DDNil(), attrs), NCons(emptyHead(), NCons(El("body", True, ANil(), tagifyL(content)), NNil()))), lp, iv)


@spec
def docDeps(content: "NodeList", attrs: "ArgDict", lp: "OptStr", iv: Bool) -> "DepList":
    "the dependency list returned by HTMLDocument.render: the resolved dependencies of the final tree"
    return depsOf(kidsOfD(docTree(content, attrs, lp, iv)), True)


@spec
def kidsOfD(t: "Node") -> "NodeList":
    match t:
        case El(n, ws, a, kids):
            return kids
        case _:
            return NNil()


@spec
def docRaises(content: "NodeList", attrs: "ArgDict") -> Bool:
    "an html attribute value of unsupported type: TypeError"
    return hasOtherDs(callDicts(DDNil(), attrs))


@spec
def docRender(content: "NodeList", attrs: "ArgDict", lp: "OptStr", iv: Bool) -> "Rendered":
    "HTMLDocument.render(): the tree rendered like any tag, with the doctype in front"
    match renderT(docTree(content, attrs, lp, iv)):
        case Rendered(deps, html):
            return Rendered(deps, "<!DOCTYPE html>\n" + html)


# ---- str() / repr() / _repr_html_ of tags and lists (C08), the json dependency render mode (C13) ----------------
@abstract(group="env")
def jsonTag(d: "Dep") -> "Node":
    "d.serialize_to_script_json(): the <script type=application/json data-html-dependency> element of one dependency"
    return BIND_D["jsonTag"](d)


BIND_D["jsonTag"] = lambda d: El("script", True, ANil(), NNil())


@prim(lean="joinNl")
def joinNl(l: "StrList") -> Str:
    '"\\n".join(l)'
    out = []
    while not isinstance(l, SNil):
        out.append(l.hd)
        l = l.tl
    return "\n".join(out)


@spec
def depJsonHtmls(ds: "DepList") -> "StrList":
    match ds:
        case DLNil():
            return SNil()
        case DLCons(d, r):
            return SCons(rtag(jsonTag(d), 0, "\n"), depJsonHtmls(r))


@spec
def strOut(r: "Rendered", mode: Str) -> Str:
    "what str() gives for a rendered tag or list: the markup, plus the serialised dependencies in json mode"
    match r:
        case Rendered(deps, html):
            if mode == "json":
                return html + joinNl(depJsonHtmls(deps))
            return html
